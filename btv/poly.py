"""Polynomial normal forms over integer expressions, for arithmetic identities
that must hold for all values (e.g. a stride formula).

A polynomial is {monomial: coefficient}; a monomial is a sorted tuple of atom
names (() is the constant term).  Atoms: parameters/fields by name, and
DIV(<num>,<den>) for an integer division whose operands are given in normal
form.  x % y is rewritten as x - DIV(x,y)*y, so the two usual spellings of a
remainder normalise to the same polynomial.  Unsigned wrap-around is not
modelled: the identity is over the integers (overflow is the business of the
overflow-checked multiply the code uses and of the bounds rules)."""
from .model import strip, strip_all, walk, show, notpl, call_args
from .flow import folded


class NotPolynomial(Exception):
    pass


def const(c):
    return {(): c} if c else {}


def atom(name):
    return {(name,): 1}


def add(a, b, sign=1):
    out = dict(a)
    for m, c in b.items():
        out[m] = out.get(m, 0) + sign * c
        if out[m] == 0:
            del out[m]
    return out


def mul(a, b):
    out = {}
    for m1, c1 in a.items():
        for m2, c2 in b.items():
            m = tuple(sorted(m1 + m2))
            out[m] = out.get(m, 0) + c1 * c2
            if out[m] == 0:
                del out[m]
    return out


def text(p):
    if not p:
        return "0"
    parts = []
    for m, c in sorted(p.items()):
        t = "*".join(m) if m else ""
        parts.append(("%d" % c if not t else (t if c == 1 else "%d*%s" % (c, t))))
    return " + ".join(parts)


class Builder:
    def __init__(self, prog, fn, names=None, depth_limit=12):
        self.prog = prog
        self.fn = fn
        self.names = names or {}      # decl id -> atom name (parameters, fields)
        self.depth_limit = depth_limit

    def build(self, e, env=None, fn=None, depth=0):
        fn = fn or self.fn
        env = env or {}
        e = strip_all(e)
        if e is None or depth > self.depth_limit:
            raise NotPolynomial("too deep")
        v = folded(e)
        if v is not None:
            return const(v)
        k = e.get("k")
        if k in ("CStyleCastExpr", "CXXStaticCastExpr", "CXXFunctionalCastExpr", "ImplicitCastExpr") and e.get("c"):
            return self.build(e["c"][0], env, fn, depth + 1)
        if k == "CXXConstructExpr" and len(e.get("c", [])) == 1:
            return self.build(e["c"][0], env, fn, depth + 1)
        if k == "DeclRefExpr":
            if e.get("d") in env:
                return env[e["d"]]
            if e.get("d") in self.names and fn is self.fn:
                return atom(self.names[e["d"]])
            if e.get("dk") == "Var":
                from . import flow
                if any(d == e.get("d") for x in fn.walk() for d, _ in flow.written_decls(x)):
                    raise NotPolynomial("variable %s is reassigned" % e.get("n"))
                for vd in fn.walk():
                    if vd.get("k") == "VarDecl" and vd.get("d") == e.get("d") and vd.get("c"):
                        return self.build(vd["c"][0], env, fn, depth + 1)
            if e.get("dk") == "ParmVar":
                return atom(e.get("n"))
            raise NotPolynomial("unknown variable %s" % e.get("n"))
        if k == "InitListExpr":
            return ("struct", [self.build(c, env, fn, depth + 1) for c in e.get("c", [])])
        if k == "MemberExpr":
            base = strip_all(e["c"][0]) if e.get("c") else None
            if base is None or base.get("k") == "CXXThisExpr":
                return atom(e.get("n"))
            # a field of a struct value that was built from a braced list (possibly handed to this function)
            try:
                sv = self.build(base, env, fn, depth + 1)
            except NotPolynomial:
                sv = None
            if isinstance(sv, tuple) and sv[0] == "struct":
                rt = notpl((base.get("ct") or base.get("t") or "").replace("const ", "").replace("&", "").strip())
                rec = [rc for q_, rc in self.prog.records.items() if notpl(q_).split("::")[-1] == rt.split("::")[-1]]
                if rec:
                    names = [f_["n"] for f_ in rec[0]["fields"]]
                    if e.get("n") in names and names.index(e.get("n")) < len(sv[1]):
                        return sv[1][names.index(e.get("n"))]
            raise NotPolynomial("member of another object: %s" % show(e))
        if k == "BinaryOperator":
            op = e.get("op")
            a = self.build(e["c"][0], env, fn, depth + 1)
            b = self.build(e["c"][1], env, fn, depth + 1)
            if isinstance(a, tuple) or isinstance(b, tuple):
                raise NotPolynomial("arithmetic on a struct value")
            if op == "+":
                return add(a, b)
            if op == "-":
                return add(a, b, -1)
            if op == "*":
                return mul(a, b)
            if op in ("/", "%"):
                d = atom("DIV(%s,%s)" % (text(a), text(b)))
                if op == "/":
                    return d
                return add(a, mul(d, b), -1)
            raise NotPolynomial("operator %s" % op)
        if k == "CallExpr":
            ts = self.prog.call_targets(fn, e)
            if len(ts) != 1:
                raise NotPolynomial("call to %s" % notpl(e.get("q") or "?"))
            t = ts[0]
            args = call_args(e)
            cenv = {}
            for p_, a in zip(t.params, args):
                cenv[p_["d"]] = self.build(a, env, fn, depth + 1)
            # the callee's value: all returns agree, except early `return 0` taken when a factor of the
            # general result is zero (an overflow-checked multiply)
            rets = [n for n in t.walk() if n.get("k") == "ReturnStmt" and n.get("c")]
            polys = []
            for rt in rets:
                polys.append(self.build(rt["c"][0], cenv, t, depth + 1))
            nz = [p for p in polys if p]
            if not nz:
                return {}
            first = nz[0]
            if any(p != first for p in nz):
                raise NotPolynomial("%s returns different values" % t.qn)
            return first
        raise NotPolynomial("%s `%s`" % (k, show(e)[:40]))
