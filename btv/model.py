"""Program model over bt-facts output: functions, trees, CFGs, call graph."""
import json
import os
import re

from . import facts
from .facts import AnalysisBroken

TRANSPARENT = {
    "ImplicitCastExpr", "ParenExpr", "ExprWithCleanups", "MaterializeTemporaryExpr",
    "CXXBindTemporaryExpr", "ConstantExpr", "FullExpr", "SubstNonTypeTemplateParmExpr",
}


def strip(n):
    """Peel wrappers that do not change the value."""
    while n is not None and n.get("k") in TRANSPARENT and n.get("c"):
        n = n["c"][0]
    return n


def _base_type(t):
    t = (t or "").replace("const ", "").replace(" const", "").replace("&", "").strip()
    return t


def strip_all(n):
    """strip() plus explicit casts that only convert (static_cast/C-style/functional)
    and copy/move constructions of the same class type (pass-by-value copies)."""
    while True:
        n = strip(n)
        if n is not None and n.get("k") == "CXXConstructExpr" and len(n.get("c", [])) == 1:
            inner = strip(n["c"][0])
            if inner is not None and _base_type(n.get("ct") or n.get("t")) and \
                    _base_type(n.get("ct") or n.get("t")) == _base_type(inner.get("ct") or inner.get("t")):
                n = inner
                continue
        if n is not None and n.get("k") in ("CStyleCastExpr", "CXXStaticCastExpr", "CXXFunctionalCastExpr") \
                and n.get("c") and n.get("ck") in ("NoOp", "IntegralCast", "LValueToRValue", "IntegralToBoolean"):
            n = n["c"][0]
            continue
        return n


def kids(n):
    return n.get("c", []) if n else []


def walk(n):
    """Pre-order walk (does not enter lambda bodies: they are separate functions)."""
    stack = [n]
    while stack:
        x = stack.pop()
        if x is None:
            continue
        yield x
        stack.extend(reversed(x.get("c", [])))


_TPL = re.compile(r"<[^<>]*>")


def notpl(q):
    """Remove template argument lists from a qualified name."""
    if not q:
        return q
    prev = None
    while prev != q:
        prev = q
        q = _TPL.sub("", q)
    return q


CALL_KINDS = {"CallExpr", "CXXMemberCallExpr", "CXXOperatorCallExpr", "CXXConstructExpr",
              "CXXTemporaryObjectExpr", "UserDefinedLiteral"}


def is_call(n):
    return n.get("k") in CALL_KINDS


def call_args(n):
    """Argument nodes of a call in source order (receiver excluded)."""
    k = n.get("k")
    c = n.get("c", [])
    if k in ("CXXConstructExpr", "CXXTemporaryObjectExpr"):
        return c
    if k == "CXXOperatorCallExpr":
        return c[1:]  # includes the object operand as first "argument"
    return c[1:]


def call_receiver(n):
    """Object expression of a member call (or None)."""
    if n.get("k") == "CXXMemberCallExpr":
        callee = strip(n["c"][0])
        if callee and callee.get("k") == "MemberExpr" and callee.get("c"):
            return callee["c"][0]
    if n.get("k") == "CXXOperatorCallExpr" and len(n.get("c", [])) > 1:
        return n["c"][1]
    return None


def show(n, depth=0):
    """Readable rendering of an expression tree (diagnostics / evidence only)."""
    if n is None:
        return "<null>"
    if depth > 12:
        return "…"
    k = n.get("k")
    c = n.get("c", [])
    s = lambda i: show(c[i], depth + 1) if i < len(c) else "?"
    if k in TRANSPARENT:
        return s(0)
    if k == "DeclRefExpr":
        return n.get("n", "?")
    if k == "MemberExpr":
        base = s(0) if c else "this"
        if c and strip(c[0]).get("k") == "CXXThisExpr":
            return n.get("n", "?")
        return base + ("->" if n.get("arrow") else ".") + n.get("n", "?")
    if k == "CXXThisExpr":
        return "this"
    if k == "IntegerLiteral":
        v = n.get("v", 0)
        return hex(v) if v > 9 else str(v)
    if k == "CharacterLiteral":
        v = n.get("v", 0)
        return repr(chr(v)) if 32 <= v < 127 else "'\\x%02x'" % v
    if k == "CXXBoolLiteralExpr":
        return "true" if n.get("v") else "false"
    if k == "StringLiteral":
        return json.dumps(n.get("s", ""))
    if k == "CXXNullPtrLiteralExpr":
        return "nullptr"
    if k == "UnaryOperator":
        if n.get("postfix"):
            return s(0) + n["op"]
        return n["op"] + s(0)
    if k in ("BinaryOperator", "CompoundAssignOperator"):
        return "(%s %s %s)" % (s(0), n["op"], s(1))
    if k == "ConditionalOperator":
        return "(%s ? %s : %s)" % (s(0), s(1), s(2))
    if k == "ArraySubscriptExpr":
        return "%s[%s]" % (s(0), s(1))
    if k in ("CStyleCastExpr", "CXXStaticCastExpr", "CXXFunctionalCastExpr", "CXXReinterpretCastExpr", "CXXConstCastExpr"):
        return "(%s)%s" % (n.get("t", "?"), s(0))
    if k == "CXXMemberCallExpr":
        return "%s(%s)" % (s(0), ", ".join(show(a, depth + 1) for a in c[1:]))
    if k == "CXXOperatorCallExpr":
        op = n.get("op", "?")
        a = c[1:]
        if op == "[]" and len(a) == 2:
            return "%s[%s]" % (show(a[0], depth + 1), show(a[1], depth + 1))
        if op == "()" and a:
            return "%s(%s)" % (show(a[0], depth + 1), ", ".join(show(x, depth + 1) for x in a[1:]))
        if len(a) == 2:
            return "(%s %s %s)" % (show(a[0], depth + 1), op, show(a[1], depth + 1))
        if len(a) == 1:
            return "%s%s" % (op, show(a[0], depth + 1))
        return "operator%s(...)" % op
    if k == "CallExpr":
        return "%s(%s)" % (s(0), ", ".join(show(a, depth + 1) for a in c[1:]))
    if k in ("CXXConstructExpr", "CXXTemporaryObjectExpr"):
        if len(c) == 1 and n.get("elidable"):
            return s(0)
        return "%s(%s)" % (notpl(n.get("cls", "?")).split("::")[-1], ", ".join(show(a, depth + 1) for a in c))
    if k == "CXXThrowExpr":
        return "throw " + (s(0) if c else "")
    if k == "CXXNewExpr":
        return "new " + n.get("alloc_t", "?")
    if k == "LambdaExpr":
        return "[lambda]"
    if k == "ReturnStmt":
        return "return " + (s(0) if c else "")
    if k == "VarDecl":
        return "%s %s%s" % (n.get("t", ""), n.get("n", ""), (" = " + s(0)) if c else "")
    if k == "DeclStmt":
        return "; ".join(show(x, depth + 1) for x in c)
    if k == "UnaryExprOrTypeTraitExpr":
        return "sizeof(%s)" % (n.get("arg_t") or s(0))
    if k == "InitListExpr":
        return "{%s}" % ", ".join(show(x, depth + 1) for x in c)
    if k == "CXXDefaultArgExpr":
        return "<default>"
    return "<%s>" % k


class CFG:
    def __init__(self, raw):
        self.entry = raw["entry"]
        self.exit = raw["exit"]
        self.blocks = {b["id"]: b for b in raw["blocks"]}
        self.succ = {}
        self.pred = {i: [] for i in self.blocks}
        for i, b in self.blocks.items():
            ss = [s for s in b["s"]]
            self.succ[i] = ss
            for s in ss:
                if s >= 0:
                    self.pred[s].append(i)
        self._dom = None
        self._pdom = None
        self._reach = None

    def reachable(self):
        if self._reach is None:
            seen = set()
            st = [self.entry]
            while st:
                b = st.pop()
                if b in seen or b < 0:
                    continue
                seen.add(b)
                st.extend(self.succ[b])
            self._reach = seen
        return self._reach

    def _domsets(self, root, nxt, prv):
        nodes = set()
        st = [root]
        while st:
            b = st.pop()
            if b in nodes or b < 0:
                continue
            nodes.add(b)
            st.extend(nxt[b])
        dom = {b: set(nodes) for b in nodes}
        dom[root] = {root}
        changed = True
        order = sorted(nodes, reverse=(root == self.entry))
        while changed:
            changed = False
            for b in order:
                if b == root:
                    continue
                ps = [p for p in prv[b] if p in nodes]
                new = set(nodes)
                for p in ps:
                    new &= dom[p]
                new |= {b}
                if new != dom[b]:
                    dom[b] = new
                    changed = True
        return dom

    def dominators(self):
        if self._dom is None:
            self._dom = self._domsets(self.entry, self.succ, self.pred)
        return self._dom

    def postdominators(self):
        if self._pdom is None:
            nxt = {b: [p for p in self.pred[b]] for b in self.blocks}
            prv = {b: [s for s in self.succ[b] if s >= 0] for b in self.blocks}
            self._pdom = self._domsets(self.exit, nxt, prv)
        return self._pdom

    def elems(self, b):
        return self.blocks[b]["e"]


class Function:
    def __init__(self, raw, unit):
        self.raw = raw
        self.unit = unit
        self.key = raw["key"]
        self.q = raw["q"]
        self.qn = notpl(raw["q"])
        self.name = raw["name"]
        self.files = unit["files"]
        l = raw.get("l") or [0, 0, 0]
        self.file = self.files[l[0]] if l else ""
        self.line = l[1] if l else 0
        self.uid = "%s|%s:%d" % (self.key, self.file, self.line)
        self.body = raw["body"]
        self.params = raw.get("params", [])
        self.parent_key = raw.get("parent")
        self.is_lambda = bool(raw.get("lambda"))
        self.cls = raw.get("class")
        self._nodes = None
        self._parent = None
        self._cfg = None
        self._where = None
        self.prog = None

    def _index(self):
        self._nodes = {}
        self._parent = {}
        roots = [self.body] + [i["init"] for i in self.raw.get("inits", []) if i.get("init")]
        for r in roots:
            st = [(r, None)]
            while st:
                n, p = st.pop()
                if n is None:
                    continue
                self._nodes[n["i"]] = n
                if p is not None:
                    self._parent[n["i"]] = p
                for c in n.get("c", []):
                    st.append((c, n))

    @property
    def nodes(self):
        if self._nodes is None:
            self._index()
        return self._nodes

    def parent(self, n):
        if self._parent is None:
            self._index()
        return self._parent.get(n["i"])

    def ancestors(self, n):
        p = self.parent(n)
        while p is not None:
            yield p
            p = self.parent(p)

    @property
    def cfg(self):
        if self._cfg is None:
            if not self.raw.get("cfg"):
                raise AnalysisBroken("no CFG for " + self.q)
            self._cfg = CFG(self.raw["cfg"])
        return self._cfg

    def where(self):
        """node id -> (block, index) for every CFG element that is a node."""
        if self._where is None:
            w = {}
            for bid, b in self.cfg.blocks.items():
                for idx, e in enumerate(b["e"]):
                    if isinstance(e, int):
                        w.setdefault(e, (bid, idx))
            # jump statements (break/continue/goto, value-less return) are block terminators, not elements
            for bid, b in self.cfg.blocks.items():
                if b.get("term") is not None and b.get("termk") in ("BreakStmt", "ContinueStmt", "GotoStmt"):
                    w.setdefault(b["term"], (bid, len(b["e"])))
            self._where = w
        return self._where

    def walk(self):
        for n in walk(self.body):
            yield n
        for i in self.raw.get("inits", []):
            if i.get("init"):
                for n in walk(i["init"]):
                    yield n

    def loc(self, n):
        l = n.get("l") or []
        if len(l) >= 2:
            return "%s:%d" % (os.path.relpath(self.files[l[0]], facts.REPO) if self.files[l[0]].startswith(facts.REPO) else self.files[l[0]], l[1])
        return "?"

    def relfile(self):
        return os.path.relpath(self.file, facts.REPO) if self.file.startswith(facts.REPO) else self.file

    def __repr__(self):
        return "<Function %s %s:%d>" % (self.q, self.relfile(), self.line)


class Program:
    """All product units of one executable (or 'all') in one configuration."""

    def __init__(self, which, cfg="N", root=None, units=None, want_ir=False):
        self.which = which
        self.cfg = cfg
        self.units = []
        if units is not None:
            self.units = units
            self.cache = None
        else:
            self.cache = facts.ensure(root=root, want_ir=want_ir, cfgs=(cfg,))
            idx = json.load(open(os.path.join(self.cache, "facts-" + cfg, "index.json")))
            targets = None if which == "all" else facts.PRODUCT_TARGETS[which]
            for e in sorted(idx, key=lambda e: (e["file"], e["target"])):
                if targets is not None and e["target"] not in targets:
                    continue
                u = json.load(open(e["facts"]))
                u["target"] = e["target"]
                if u.get("errors"):
                    raise AnalysisBroken("unit %s has compile errors" % e["file"])
                self.units.append(u)
        if not self.units:
            raise AnalysisBroken("no units for program " + which)
        self.functions = {}     # uid -> Function
        self.by_key = {}        # key -> [Function]
        self.callees = {}       # key -> info (merged; body-holding info wins)
        self.records = {}
        self.globals = {}
        self.enums = {}
        for u in self.units:
            for raw in u["functions"]:
                f = Function(raw, u)
                if f.uid in self.functions:
                    continue
                f.prog = self
                self.functions[f.uid] = f
                self.by_key.setdefault(f.key, []).append(f)
            for k, info in u["callees"].items():
                old = self.callees.get(k)
                if old is None or (info.get("has_body") and not old.get("has_body")):
                    self.callees[k] = info
            for r in u["records"]:
                self.records.setdefault(notpl_keep(r["q"]), r)
            for g in u["globals"]:
                l = g.get("l") or [0, 0, 0]
                gid = "%s|%s:%d" % (g["q"], u["files"][l[0]] if l else "", l[1] if l else 0)
                g["_files"] = u["files"]
                old = self.globals.get(gid)
                if old is None or (g.get("is_def") and not old.get("is_def")):
                    self.globals[gid] = g
            for e in u["enums"]:
                self.enums.setdefault(e["q"], e)
        self._overriders = None

    # -- lookup -----------------------------------------------------------
    def fn(self, qname, required=True):
        """Functions whose template-less qualified name equals qname."""
        out = [f for f in self.functions.values() if f.qn == qname]
        if required and not out:
            raise AnalysisBroken("anchor function %s not found in program %s" % (qname, self.which))
        return out

    def fnby(self, name, required=True):
        """Functions whose qualified name is `name` or ends in `::name`."""
        out = [f for f in self.functions.values() if f.qn == name or f.qn.endswith("::" + name)]
        if required and not out:
            raise AnalysisBroken("anchor function %s not found in program %s" % (name, self.which))
        return out

    def fn1(self, qname):
        out = self.fn(qname)
        if len(out) != 1:
            raise AnalysisBroken("anchor function %s is ambiguous (%d definitions)" % (qname, len(out)))
        return out[0]

    def resolve(self, caller, key):
        """Definitions a direct call from `caller` to `key` may reach."""
        cands = self.by_key.get(key, [])
        if len(cands) <= 1:
            return cands
        info = caller.unit["callees"].get(key, {})
        if info.get("has_body"):
            same = [f for f in cands if f.file == info.get("file") and f.line == info.get("line")]
            if same:
                return same
        return cands

    def overriders(self, key):
        """All methods that (transitively) override the method `key`, plus itself."""
        if self._overriders is None:
            rev = {}
            for k, info in self.callees.items():
                for o in info.get("overrides", []) or []:
                    rev.setdefault(o, set()).add(k)
            self._overriders = rev
        out, st = set(), [key]
        while st:
            k = st.pop()
            if k in out:
                continue
            out.add(k)
            st.extend(self._overriders.get(k, ()))
        return out

    def call_targets(self, caller, call):
        """Functions with bodies that a call node may invoke (virtual calls
        resolved to every overrider)."""
        key = call.get("fn")
        if not key:
            return []
        keys = self.overriders(key) if call.get("virt") else {key}
        out = []
        for k in keys:
            out.extend(self.resolve(caller, k))
        return out

    def lambdas_in(self, f):
        """Lambda call operators lexically inside f (direct children)."""
        return [g for g in self.functions.values() if g.parent_key == f.key and g.unit is f.unit
                or (g.parent_key == f.key and g.file == f.file)]

    def callee_info(self, key):
        return self.callees.get(key, {})


def notpl_keep(q):
    return q
