"""Diagnose-on-failure analysis (R-C07-8, R-C08-6).

A *failure point* of a function is a return of its failure value (false,
nullopt, null, non-zero status) or an assignment of a failure constant to a
local that is later returned.  A failure point is *covered* when every path
from the function entry to it has either written a diagnostic to standard
error, or come through the failing edge of a call to a function all of whose
own failure points are covered (computed recursively, co-inductively for
cycles).  Functions that take an error-string out-parameter may instead set it
(their callers then have to print it: a failing edge of such a call counts as
covered only for a caller that itself forwards the same out-parameter).

State per path:  N nothing yet, E diagnostic emitted, S error string set."""
from .model import strip, strip_all, walk, show, notpl, is_call, call_args
from .flow import Guards, PathStates, folded, canon
from . import flow

STDERR_NAMES = {"std::cerr", "std::clog", "stderr"}
C_PRINTERS = {"fprintf": 0, "vfprintf": 0, "fputs": 1, "fputc": 1, "putc": 1, "fwrite": 3}


class DiagAnalysis:
    def __init__(self, prog):
        self.prog = prog
        self.memo = {}      # (uid, mode) -> (bool, reason)
        self._lam = {}
        for f in prog.functions.values():
            if f.parent_key:
                self._lam.setdefault(f.parent_key, []).append(f)

    # ---- events -----------------------------------------------------------
    def is_emit(self, f, n):
        k = n.get("k")
        if k == "CXXOperatorCallExpr" and n.get("op") == "<<" and len(n.get("c", [])) == 3:
            x = n
            while x is not None and x.get("k") == "CXXOperatorCallExpr" and x.get("op") == "<<":
                x = strip_all(x["c"][1])
            if x is not None and x.get("k") == "DeclRefExpr" and notpl(x.get("q") or "") in STDERR_NAMES:
                return True
            return False
        if k == "CallExpr":
            q = notpl(n.get("q") or "")
            if q == "perror":
                return True
            if q in C_PRINTERS:
                a = call_args(n)
                i = C_PRINTERS[q]
                s = strip_all(a[i]) if i < len(a) else None
                return s is not None and s.get("n") == "stderr"
        if is_call(n) and k not in ("CXXOperatorCallExpr",):
            # helper given std::cerr to write to
            for a in call_args(n):
                s = strip_all(a)
                if s is not None and s.get("k") == "DeclRefExpr" and notpl(s.get("q") or "") in STDERR_NAMES:
                    return True
            # helper that always prints (void or otherwise): every path through it emits
            if n.get("fn"):
                ts = self.prog.call_targets(f, n)
                if ts and all(self.always_emits(t) for t in ts):
                    return True
        if k == "CXXOperatorCallExpr" and n.get("op") == "()":
            # a local lambda that always prints (a shared "report the failure" helper)
            ts = self.callee_targets(f, n)
            if ts and all(self.always_emits(t) for t in ts):
                return True
        return False

    def always_emits(self, t, depth=0):
        key = (t.uid, "always")
        if key in self.memo:
            return self.memo[key][0]
        self.memo[key] = (False, "")
        if depth > 6:
            return False
        try:
            ps = PathStates(t, "N", lambda n, st: "E" if (st == "E" or self._emit_shallow(t, n)) else st, None)
        except Exception:
            return False
        ok = True
        rets = [n for n in t.walk() if n.get("k") == "ReturnStmt"]
        exit_states = ps.IN.get(t.cfg.exit, set())
        if not exit_states or "N" in exit_states:
            ok = False
        self.memo[key] = (ok, "")
        return ok

    def _emit_shallow(self, f, n):
        k = n.get("k")
        if k == "CXXOperatorCallExpr" and n.get("op") == "<<":
            return self.is_emit(f, n)
        if k == "CallExpr":
            q = notpl(n.get("q") or "")
            if q == "perror":
                return True
            if q in C_PRINTERS:
                return self.is_emit(f, n)
        return False

    def error_params(self, f):
        out = set()
        for p in f.params:
            t = p.get("ct") or p.get("t") or ""
            if ("basic_string" in t or "std::string" in t) and ("&" in t or "*" in t) and not t.startswith("const "):
                out.add(p["d"])
        return out

    def is_seterr(self, f, n, errs):
        """Node writes to one of the error out-params (or passes it to an error-setting callee: handled on edges)."""
        k = n.get("k")
        tgt = None
        if k == "CXXOperatorCallExpr" and n.get("op") in ("=", "+=") and len(n["c"]) == 3:
            tgt = n["c"][1]
        elif k == "CXXMemberCallExpr":
            cal = strip(n["c"][0])
            if cal and cal.get("n") in ("assign", "append", "push_back") and cal.get("c"):
                tgt = cal["c"][0]
        if tgt is None:
            return False
        t = strip_all(tgt)
        if t.get("k") == "UnaryOperator" and t.get("op") == "*":
            t = strip_all(t["c"][0])
        return t.get("k") == "DeclRefExpr" and t.get("d") in errs

    # ---- failure values -----------------------------------------------------
    def failure_kind(self, f):
        rt = f.raw.get("ret") or ""
        if rt in ("bool", "_Bool"):
            return "bool"
        if rt.startswith("std::optional<"):
            return "optional"
        if rt.endswith("*") or rt.startswith("std::unique_ptr<"):
            return "pointer"
        if rt == "int":
            return "status"
        if rt.startswith("std::pair<bool"):
            return "pairbool"
        if rt.startswith("enum ") or rt in self.prog.enums:
            return "enum"     # convention: the enumerator with value 0 means success
        return None

    def classify_return(self, f, ret, kind):
        """'fail' | 'ok' | ('call', callnode) | 'stream' | ('var', decl) | ('param', idx) | 'unknown'"""
        if not ret.get("c"):
            return "ok"
        e = strip_all(ret["c"][0])
        if kind == "pairbool":
            # make_pair(flag, value) / pair{flag, value}: the flag decides
            x = e
            while x is not None and x.get("k") in ("CXXConstructExpr",) and len(x.get("c", [])) == 1:
                x = strip_all(x["c"][0])
            if x is not None and is_call(x) and x.get("c"):
                args = call_args(x) if x.get("k") != "CXXConstructExpr" else x["c"]
                if args:
                    e = strip_all(args[0])
                    kind = "bool"
        v = folded(e)
        if kind == "bool":
            if v == 0:
                return "fail"
            if v == 1:
                return "ok"
        if kind in ("status", "enum"):
            if v is not None:
                return "ok" if v == 0 else "fail"
        if kind == "optional":
            x = e
            for _ in range(3):
                if x is not None and x.get("k") in ("CXXConstructExpr", "CXXFunctionalCastExpr") and len(x.get("c", [])) == 1:
                    x = strip_all(x["c"][0])
            if x is not None and x.get("k") == "DeclRefExpr" and x.get("n") == "nullopt":
                return "fail"
            if e.get("k") == "DeclRefExpr" and e.get("n") == "nullopt":
                return "fail"
            t = e.get("ct") or e.get("t") or ""
            if e.get("k") in ("CXXConstructExpr", "InitListExpr") and not e.get("c"):
                return "fail"
            if "nullopt_t" in t:
                return "fail"
        if kind == "pointer":
            if v == 0 or e.get("k") in ("CXXNullPtrLiteralExpr", "GNUNullExpr"):
                return "fail"
            if e.get("k") in ("CXXConstructExpr",) and not e.get("c"):
                return "fail"
            if e.get("k") == "CXXConstructExpr" and len(e["c"]) == 1 and folded(e["c"][0]) == 0:
                return "fail"
        # stream state
        for x in walk(e):
            if x.get("k") == "CXXMemberCallExpr":
                cal = strip(x["c"][0])
                if cal and cal.get("n") in ("good", "fail", "bad", "operator bool") and cal.get("c"):
                    base = cal["c"][0]
                    if any(y.get("k") == "DeclRefExpr" and notpl(y.get("q") or "") == "std::cout" for y in walk(base)):
                        return "stream"
                    # an ostream& parameter that every caller binds to std::cout
                    for y in walk(base):
                        if y.get("k") == "DeclRefExpr" and y.get("dk") == "ParmVar" and "ostream" in (y.get("t") or y.get("ct") or ""):
                            idx = [i for i, p in enumerate(f.params) if p["d"] == y["d"]]
                            sites = []
                            for g_ in self.prog.functions.values():
                                for c_ in g_.walk():
                                    if is_call(c_) and f in self.prog.call_targets(g_, c_):
                                        a_ = call_args(c_)
                                        if idx and idx[0] < len(a_):
                                            sites.append(a_[idx[0]])
                            if sites and all(any(z.get("k") == "DeclRefExpr" and notpl(z.get("q") or "") == "std::cout" for z in walk(a_))
                                             for a_ in sites):
                                return "stream"
        if e.get("k") == "ConditionalOperator":
            c = strip_all(e["c"][0])
            if c.get("k") == "DeclRefExpr" and c.get("dk") == "Var":
                # `flag ? SUCCESS : FAILURE`: the failure is decided where the flag is set
                return ("var", c["d"])
            if c.get("k") == "DeclRefExpr" and c.get("dk") == "ParmVar":
                idx = [i for i, p in enumerate(f.params) if p["d"] == c["d"]]
                if idx:
                    return ("param", idx[0])
        if is_call(e) and e.get("k") not in ("CXXConstructExpr",):
            return ("call", e)
        if e.get("k") == "DeclRefExpr" and e.get("dk") in ("Var",):
            return ("var", e["d"])
        if e.get("k") == "DeclRefExpr" and e.get("dk") == "ParmVar":
            idx = [i for i, p in enumerate(f.params) if p["d"] == e["d"]]
            if idx:
                return ("param", idx[0])
        if kind in ("optional", "pointer"):
            return "ok"   # a constructed value
        return "unknown"

    # ---- classification -----------------------------------------------------
    def callee_targets(self, f, call):
        ts = self.prog.call_targets(f, call) if call.get("fn") else []
        if not ts and call.get("k") == "CallExpr" and call.get("c"):
            # call through a local function pointer
            ce = strip_all(call["c"][0])
            if ce is not None and ce.get("k") == "DeclRefExpr" and ce.get("dk") == "Var":
                for n in f.walk():
                    if n.get("k") == "VarDecl" and n.get("d") == ce.get("d") and n.get("c"):
                        for x in walk(n["c"][0]):
                            if x.get("k") == "DeclRefExpr" and x.get("dk") == "Function" and x.get("fn"):
                                ts += self.prog.resolve(f, x["fn"])
        if not ts and call.get("k") == "CallExpr" and call.get("c"):
            # call through a function pointer kept in a record: every function ever stored in that field
            ce = strip_all(call["c"][0])
            if ce is not None and ce.get("k") == "MemberExpr" and ce.get("dk") == "Field":
                fname = ce.get("n")

                def functions_in(g, e, depth=0):
                    out = []
                    for x in walk(e):
                        if x.get("k") == "DeclRefExpr" and x.get("dk") == "Function" and x.get("fn"):
                            p_ = g.parent(x)
                            while p_ is not None and p_.get("k") in ("ImplicitCastExpr", "ParenExpr", "UnaryOperator"):
                                p_ = g.parent(p_)
                            if p_ is not None and is_call(p_) and p_.get("fn") == x.get("fn"):
                                # the callee of a direct call: its *result* may be a function
                                if depth < 2:
                                    for t in self.prog.call_targets(g, p_):
                                        for r_ in t.walk():
                                            if r_.get("k") == "ReturnStmt" and r_.get("c"):
                                                out += functions_in(t, r_["c"][0], depth + 1)
                                continue
                            out += self.prog.resolve(g, x["fn"])
                    return out
                for g in self.prog.functions.values():
                    for n in g.walk():
                        if n.get("k") == "BinaryOperator" and n.get("op") == "=":
                            tgt = strip_all(n["c"][0])
                            if tgt is not None and tgt.get("k") == "MemberExpr" and tgt.get("n") == fname:
                                ts += functions_in(g, n["c"][1])
        if not ts and call.get("k") == "CXXOperatorCallExpr" and call.get("op") == "()" and len(call.get("c", [])) >= 2:
            # lambda / std::function object held in a local: the lambda bodies defined in this function
            obj = strip_all(call["c"][1])
            if obj is not None and obj.get("k") == "LambdaExpr" and obj.get("fn"):
                ts += self.prog.by_key.get(obj["fn"], [])
            if obj is not None and obj.get("k") == "DeclRefExpr":
                for n in f.walk():
                    if n.get("k") == "VarDecl" and n.get("d") == obj.get("d") and n.get("c"):
                        for x in walk(n["c"][0]):
                            if x.get("k") == "LambdaExpr" and x.get("fn"):
                                ts += self.prog.by_key.get(x["fn"], [])
                if not ts and obj.get("dk") == "ParmVar":
                    # std::function parameter: every lambda passed at the call sites of f
                    idx = [i for i, p in enumerate(f.params) if p["d"] == obj.get("d")]
                    if idx:
                        for g in self.prog.functions.values():
                            for n in g.walk():
                                if is_call(n) and n.get("fn") == f.key:
                                    a = call_args(n)
                                    if idx[0] < len(a):
                                        for x in walk(a[idx[0]]):
                                            if x.get("k") == "LambdaExpr" and x.get("fn"):
                                                ts += self.prog.by_key.get(x["fn"], [])
                                            if x.get("k") == "DeclRefExpr" and x.get("dk") == "Var":
                                                for v in g.walk():
                                                    if v.get("k") == "VarDecl" and v.get("d") == x.get("d") and v.get("c"):
                                                        for y in walk(v["c"][0]):
                                                            if y.get("k") == "LambdaExpr" and y.get("fn"):
                                                                ts += self.prog.by_key.get(y["fn"], [])
        return ts

    def covered_call(self, f, call, mode, errs, ignore=frozenset()):
        """Does a failure of this call count as diagnosed ('E'), error-set ('S'), or nothing (None)?"""
        ts = self.callee_targets(f, call)
        if not ts:
            return None
        res = "E"
        for t in ts:
            ok, _ = self.classify(t, "diag", ignore)
            if ok:
                continue
            ok2, _ = self.classify(t, "errset")
            if ok2 and mode == "errset" and self._forwards_error(f, call, t, errs):
                res = "S"
                continue
            return None
        return res

    def _forwards_error(self, f, call, t, errs):
        terr = self.error_params(t)
        args = call_args(call)
        for i, p in enumerate(t.params):
            if p["d"] in terr and i < len(args):
                a = strip_all(args[i])
                if a.get("k") == "UnaryOperator" and a.get("op") == "&":
                    a = strip_all(a["c"][0])
                if a.get("k") == "DeclRefExpr" and a.get("d") in errs:
                    return True
        return False

    def classify(self, f, mode, ignore=frozenset()):
        """mode 'diag': every failure point preceded by a diagnostic; 'errset': diagnostic or error string set.
        ignore: status values of f that the caller is known not to treat as its result (a sentinel such as
        "keep going" that a dominating comparison excludes before the value is returned further up)."""
        key = (f.uid, mode, ignore)
        if key in self.memo:
            return self.memo[key]
        self.memo[key] = (True, "assumed (recursion)")
        res = self._classify(f, mode, ignore)
        self.memo[key] = res
        return res

    def _excluded_values(self, f, d):
        """Constants c such that every `return <var d>` of f is dominated by the fact d != c."""
        from .flow import Guards
        g = Guards(f)
        common = None
        for n in f.walk():
            if n.get("k") == "ReturnStmt" and n.get("c"):
                e = strip_all(n["c"][0])
                if e is not None and e.get("k") == "DeclRefExpr" and e.get("d") == d:
                    here = set()
                    for l, rel, rr in (g.cmps(n) or []):
                        ls = strip_all(l)
                        if rel == "!=" and ls is not None and ls.get("k") == "DeclRefExpr" and ls.get("d") == d and folded(rr) is not None:
                            here.add(folded(rr))
                    common = here if common is None else (common & here)
        return frozenset(common or ())

    def failure_points(self, f, kind, ignore=frozenset()):
        """[(node, how)] where how is 'fail' | ('call', node) | ('param', i) | 'unknown'."""
        pts = []
        ret_vars = set()
        for n in f.walk():
            if n.get("k") == "ReturnStmt":
                c = self.classify_return(f, n, kind)
                if c == "fail" and ignore and n.get("c") and folded(n["c"][0]) in ignore:
                    continue
                if c in ("ok", "stream"):
                    continue
                if isinstance(c, tuple) and c[0] == "var":
                    ret_vars.add(c[1])
                    continue
                pts.append((n, c))
        if ret_vars:
            vtypes = {}
            for n in f.walk():
                if n.get("k") == "VarDecl" and n.get("d") in ret_vars:
                    vtypes[n["d"]] = (n.get("ct") or n.get("t") or "").replace("const ", "")

            def vkind(d):
                # a bool flag means failure when false; a status/enum variable when non-zero
                return "bool" if vtypes.get(d) in ("bool", "_Bool") else ("status" if kind in ("enum", "status") else kind)
            for n in f.walk():
                if n.get("k") == "VarDecl" and n.get("d") in ret_vars and n.get("c"):
                    init = strip_all(n["c"][0])
                    v = folded(init)
                    if self._is_fail_const(v, vkind(n["d"])):
                        pts.append((n, "fail"))
                    elif is_call(init) and init.get("k") != "CXXConstructExpr":
                        pts.append((n, ("call", init, self._excluded_values(f, n["d"]))))
                if n.get("k") == "BinaryOperator" and n.get("op") == "=" and strip_all(n["c"][0]).get("d") in ret_vars:
                    rhs = strip_all(n["c"][1])
                    v = folded(rhs)
                    if self._is_fail_const(v, vkind(strip_all(n["c"][0]).get("d"))):
                        pts.append((n, "fail"))
                    elif v is None and is_call(rhs) and rhs.get("k") != "CXXConstructExpr":
                        pts.append((n, ("call", rhs)))
                if n.get("k") == "CXXOperatorCallExpr" and n.get("op") == "=" and len(n["c"]) == 3 and \
                        strip_all(n["c"][1]).get("d") in ret_vars:
                    rhs = strip_all(n["c"][2])
                    if is_call(rhs) and rhs.get("k") != "CXXConstructExpr":
                        pts.append((n, ("call", rhs)))
        return pts

    @staticmethod
    def _is_fail_const(v, kind):
        if v is None:
            return False
        if kind in ("bool", "pairbool"):
            return v == 0
        if kind == "status":
            return v != 0
        return False

    def path_states(self, f, mode):
        errs = self.error_params(f)
        g = Guards(f)
        me = self

        def elem_tf(n, st):
            if st == "E":
                return st
            if me.is_emit(f, n):
                return "E"
            if errs and me.is_seterr(f, n, errs):
                return "S"
            return st

        def call_of(node):
            node = strip_all(node)
            if node is None:
                return None
            if is_call(node) and node.get("k") != "CXXConstructExpr":
                return node
            return None

        def edge_tf(facts_, st):
            if st == "E":
                return st
            for k in facts_:
                if k[0] == "NAND" and k[1][0] == "T" and k[2][0] == "T" and k[1][2] is True and k[2][2] is True:
                    # "not both succeeded": diagnosed if each of the two calls diagnoses its own failure
                    c1 = call_of(g.rep[k[1]][1]) if k[1] in g.rep else None
                    c2 = call_of(g.rep[k[2]][1]) if k[2] in g.rep else None
                    if c1 is not None and c2 is not None:
                        r1 = me.covered_call(f, c1, mode, errs)
                        r2 = me.covered_call(f, c2, mode, errs)
                        if r1 == "E" and r2 == "E":
                            return "E"
                        if r1 in ("E", "S") and r2 in ("E", "S") and st == "N":
                            st = "S"
                    continue
                if k[0] == "S" and k[2] not in (0,) and k in g.rep:
                    # switch on a call's result, on an arm other than the success value
                    c0 = call_of(g.rep[k][1])
                    if c0 is not None:
                        r0 = me.covered_call(f, c0, mode, errs)
                        if r0 == "E":
                            return "E"
                        if r0 == "S" and st == "N":
                            st = "S"
                    continue
                if k[0] != "T" or k[2] is not False:
                    continue
                node = strip_all(g.rep[k][1])
                call = None
                if is_call(node) and node.get("k") != "CXXConstructExpr":
                    call = node
                elif node.get("k") == "DeclRefExpr":
                    for v in f.walk():
                        if v.get("k") == "CXXOperatorCallExpr" and v.get("op") == "=" and len(v["c"]) == 3:
                            lhs = strip_all(v["c"][1])
                            if lhs is not None and lhs.get("k") == "CallExpr" and notpl(lhs.get("q") or "") == "std::tie" and \
                                    any(strip_all(a).get("d") == node.get("d") for a in call_args(lhs)):
                                rhs = strip_all(v["c"][2])
                                if rhs is not None and is_call(rhs) and rhs.get("k") != "CXXConstructExpr":
                                    call = rhs
                        if v.get("k") == "VarDecl" and v.get("d") == node.get("d") and v.get("c"):
                            init = strip_all(v["c"][0])
                            for _ in range(3):
                                if init is not None and init.get("k") == "CXXConstructExpr" and len(init.get("c", [])) == 1:
                                    init = strip_all(init["c"][0])
                            if init is not None and is_call(init) and init.get("k") != "CXXConstructExpr":
                                call = init
                if call is not None:
                    c = me.covered_call(f, call, mode, errs)
                    if c == "E":
                        return "E"
                    if c == "S" and st == "N":
                        st = "S"
            return st
        return PathStates(f, "N", elem_tf, edge_tf, guards=g), errs

    def _pessimistic_default_ok(self, f, node, kind, mode, errs, good):
        """`int status = 1; ... status = f(); ... return status;`: a failing value stored early is not itself a
        failure - what matters is the state in which the variable is *returned* while it may still hold that
        value.  Product typestate (diagnostic state, what the variable holds) evaluated at every return of it."""
        from .flow import PathStates
        if node.get("k") == "VarDecl":
            d = node["d"]
        else:
            d = (strip_all(node["c"][0]) or {}).get("d")
        if d is None:
            return False
        vk = "bool" if kind in ("bool", "pairbool") else "status"
        base_ps, _ = self.path_states(f, mode)
        me = self

        def val_of(rhs):
            rr = strip_all(rhs)
            v = folded(rhs)
            if v is not None:
                return "fail" if me._is_fail_const(v, vk) else "ok"
            if rr is not None and is_call(rr) and rr.get("k") != "CXXConstructExpr":
                c = me.covered_call(f, rr, mode, errs)
                return "ok" if (c == "E" or (c == "S" and mode == "errset")) else "fail"
            return "fail"

        def elem_tf(n, t):
            dg, val = t
            dg = base_ps.elem_tf(n, dg)
            if n.get("k") == "DeclStmt":
                for v in n.get("c", []):
                    if v.get("k") == "VarDecl" and v.get("d") == d and v.get("c"):
                        val = val_of(v["c"][0])
            elif n.get("k") == "VarDecl" and n.get("d") == d and n.get("c"):
                val = val_of(n["c"][0])
            elif n.get("k") == "BinaryOperator" and n.get("op") == "=" and (strip_all(n["c"][0]) or {}).get("d") == d:
                val = val_of(n["c"][1])
            return (dg, val)

        def edge_tf(facts_, t):
            dg, val = t
            dg2 = base_ps.edge_tf(facts_, dg) if base_ps.edge_tf else dg
            return (dg2, val)
        ps = PathStates(f, ("N", "ok"), elem_tf, edge_tf, guards=base_ps.g)
        for n in f.walk():
            if n.get("k") == "ReturnStmt" and n.get("c"):
                e = strip_all(n["c"][0])
                if e is not None and e.get("k") == "DeclRefExpr" and e.get("d") == d:
                    sts = ps.before(n)
                    if sts is None:
                        continue
                    for dg, val in sts:
                        if val == "fail" and dg not in good:
                            return False
        return True

    def _classify(self, f, mode, ignore=frozenset()):
        kind = self.failure_kind(f)
        if kind is None:
            return (True, "no failure value")
        if mode == "errset" and not self.error_params(f):
            return (False, "%s has no error out-parameter" % f.qn)
        try:
            ps, errs = self.path_states(f, mode)
        except Exception as e:
            return (False, "cannot analyse %s: %s" % (f.qn, e))
        good = {"E"} if mode == "diag" else {"E", "S"}
        calls_getopt = False
        for n in f.walk():
            if n.get("k") == "CallExpr" and notpl(n.get("q") or "") in ("getopt_long", "getopt"):
                # getopt prints its own message for '?' unless the option string starts with ':' (after an
                # optional '+' or '-'), or opterr was cleared
                a = call_args(n)
                os_ = strip_all(a[2]) if len(a) > 2 else None
                text = os_.get("s") if os_ is not None and os_.get("k") == "StringLiteral" else None
                calls_getopt = text is not None and not text.lstrip("+-").startswith(":")
        if calls_getopt and any(x.get("k") == "DeclRefExpr" and x.get("n") == "opterr" for g_ in self.prog.functions.values()
                                for y in g_.walk() if y.get("k") in ("BinaryOperator",) and y.get("op") == "=" for x in walk(y["c"][0])):
            calls_getopt = False
        for node, how in self.failure_points(f, kind, ignore):
            st = ps.before(node)
            if st is None:
                continue
            facts_ = ps.g.at(node) or set()
            # failure because standard output is bad: diagnosed by main's epilogue (R-C11-1 / stdout-failure rule)
            if any(k[0] == "T" and k[2] is False and
                   any(x.get("k") == "DeclRefExpr" and notpl(x.get("q") or "") in ("std::cout", "stdout")
                       for x in walk(ps.g.rep[k][1])) for k in facts_ if k in ps.g.rep):
                continue
            # getopt's '?' result: the C library has already printed the message (opterr is never cleared: census)
            if calls_getopt and any(k[0] == "S" and k[2] == 63 for k in facts_):
                continue
            # ... the same decision written as a comparison: `if (opt == '?') return 1;`
            if calls_getopt and any(k[0] == "C" and k[2] == "==" and "#63" in (k[1], k[3]) for k in facts_):
                continue
            if isinstance(how, tuple) and how[0] == "call":
                if st <= good:
                    continue
                c = self.covered_call(f, how[1], mode, errs, how[2] if len(how) > 2 else frozenset())
                if c == "E" or (c == "S" and mode == "errset"):
                    continue
                ts = self.callee_targets(f, how[1])
                inner = ""
                if ts:
                    _, inner = self.classify(ts[0], "diag", how[2] if len(how) > 2 else frozenset())
                return (False, "%s returns the result of %s (%s), which can fail without a diagnostic%s" %
                        (f.qn, notpl(how[1].get("q") or show(how[1])[:30]), f.loc(node), (": " + inner) if inner else ""))
            if isinstance(how, tuple) and how[0] == "param":
                continue   # the caller's obligation
            if how == "unknown":
                continue
            if not st <= good and node.get("k") in ("VarDecl", "BinaryOperator") and \
                    self._pessimistic_default_ok(f, node, kind, mode, errs, good):
                continue
            if not st <= good:
                return (False, "%s can fail at %s without having written a diagnostic%s" %
                        (f.qn, f.loc(node), " or set its error string" if mode == "errset" else ""))
        return (True, "")
