"""Bit-provenance domain: every bit of an integer value is an affine form over
GF(2) of symbolic *input bits* (XOR of a set of variables, plus a constant),
or TOP (unknown).  Exact for shift/mask/or/xor field-decoding code.

A tiny evaluator interprets straight-line C/C++ function bodies over this
domain (declarations, assignments, if on a single input bit -> case split,
switch on up to 4 input bits -> enumeration, return), inlining calls to small
repository functions.  No solver: forms are normalised sets, compared
syntactically."""
from .flow import folded
from .model import strip, strip_all, walk, show, notpl, is_call, call_args
from .facts import AnalysisBroken

TOP = None


def bconst(c):
    return (frozenset(), c & 1)


def bvar(name):
    return (frozenset([name]), 0)


def is_const(b):
    return b is not TOP and not b[0]


def bxor(a, b):
    if a is TOP or b is TOP:
        return TOP
    return (a[0] ^ b[0], a[1] ^ b[1])


def band(a, b):
    if is_const(a):
        return b if a[1] else bconst(0)
    if is_const(b):
        return a if b[1] else bconst(0)
    if a is not TOP and b is not TOP and a == b:
        return a
    return TOP


def bor(a, b):
    if is_const(a):
        return bconst(1) if a[1] else b
    if is_const(b):
        return bconst(1) if b[1] else a
    if a is not TOP and b is not TOP and a == b:
        return a
    return TOP


def bnot(a):
    if a is TOP:
        return TOP
    return (a[0], a[1] ^ 1)


def bsub(a, assign):
    """Substitute into a bit form.  assign maps a variable to 0/1 or to an affine form (vars, const) - the
    latter comes from a case split on an XOR of several input bits."""
    if a is TOP:
        return TOP
    vs, c = a
    keep = set()
    for v in vs:
        if v in assign:
            val = assign[v]
            if isinstance(val, tuple):
                keep ^= set(val[0])
                c ^= val[1]
            else:
                c ^= val
        else:
            keep ^= {v}
    return (frozenset(keep), c)


def apply_assumptions(bv, assume):
    """bv under the path condition `assume` (an insertion-ordered dict of eliminations, each expressed in the
    variables that were still free when it was made): applied one after the other."""
    for k, v in assume.items():
        bv = bv.subst({k: v})
    return bv


def split_on(bit):
    """[(taken, assignment)] for a branch on a non-constant affine bit; None if it cannot be split."""
    if bit is TOP or not bit[0]:
        return None
    vs, c = bit
    if len(vs) == 1:
        (v,) = vs
        return [(True, {v: 1 ^ c}), (False, {v: c})]
    pivot = sorted(vs)[-1]
    rest = frozenset(vs - {pivot})
    return [(True, {pivot: (rest, c ^ 1)}), (False, {pivot: (rest, c)})]


def bshow(a):
    if a is TOP:
        return "?"
    vs, c = a
    if not vs:
        return str(c)
    s = "^".join(sorted(vs))
    return s + ("^1" if c else "")


class BV:
    def __init__(self, bits):
        self.bits = list(bits)

    @property
    def width(self):
        return len(self.bits)

    @staticmethod
    def const(v, w):
        return BV([bconst((v >> i) & 1) for i in range(w)])

    @staticmethod
    def var(name, w):
        return BV([bvar("%s.%d" % (name, i)) for i in range(w)])

    def value(self):
        v = 0
        for i, b in enumerate(self.bits):
            if not is_const(b):
                return None
            v |= b[1] << i
        return v

    def resize(self, w, signed=False):
        if w <= self.width:
            return BV(self.bits[:w])
        ext = self.bits[-1] if (signed and self.bits) else bconst(0)
        return BV(self.bits + [ext] * (w - self.width))

    def subst(self, assign):
        return BV([bsub(b, assign) for b in self.bits])

    def show(self):
        return "[" + " ".join(bshow(b) for b in reversed(self.bits)) + "]"

    def maybe_set(self, i):
        b = self.bits[i]
        return not (is_const(b) and b[1] == 0)


def bv_and(a, b):
    return BV([band(x, y) for x, y in zip(a.bits, b.bits)])


def bv_or(a, b):
    return BV([bor(x, y) for x, y in zip(a.bits, b.bits)])


def bv_xor(a, b):
    return BV([bxor(x, y) for x, y in zip(a.bits, b.bits)])


def bv_not(a):
    return BV([bnot(x) for x in a.bits])


def bv_shl(a, k):
    w = a.width
    if k >= w:
        return BV.const(0, w)
    return BV([bconst(0)] * k + a.bits[:w - k])


def bv_shr(a, k, signed=False):
    w = a.width
    fill = a.bits[-1] if signed else bconst(0)
    if k >= w:
        return BV([fill] * w)
    return BV(a.bits[k:] + [fill] * k)


def bv_add(a, b):
    # exact when no position can be set in both operands (then + is |)
    w = a.width
    if all(not (a.maybe_set(i) and b.maybe_set(i)) for i in range(w)):
        return bv_or(a, b)
    va, vb = a.value(), b.value()
    if va is not None and vb is not None:
        return BV.const((va + vb) & ((1 << w) - 1), w)
    # constant + 1 on an even value etc. are not needed; give up
    return BV([TOP] * w)


class Unsupported(Exception):
    pass


class Evaluator:
    """Interprets a function body over BV values.

    input_hook(base_node, index:int, elem_width) -> BV or None   for subscripts of input arrays
    """

    def __init__(self, prog, input_hook, max_inline=4):
        self.prog = prog
        self.input_hook = input_hook
        self.max_inline = max_inline

    # --- public -----------------------------------------------------------
    def run(self, fn, args=None, env=None, depth=0):
        """Evaluate fn with parameter values `args` (list of BV).  Returns a list of
        (assumptions dict, BV return value, final env) - one per path."""
        env = dict(env or {})
        if args is not None:
            for p, a in zip(fn.params, args):
                w = p.get("w") or (a.width if a is not None else 32)
                env[p["d"]] = a.resize(w, False) if a is not None else None
        paths = [({}, env, None)]
        out = self._stmts(fn, [fn.body], paths, depth)
        return out

    # --- statements -------------------------------------------------------
    def _stmts(self, fn, stmts, paths, depth):
        """paths: list of (assume, env, retval); returns same shape."""
        for st in stmts:
            new = []
            for assume, env, ret in paths:
                if ret is not None:
                    new.append((assume, env, ret))
                    continue
                new.extend(self._stmt(fn, st, assume, env, depth))
            paths = new
        return paths

    def _stmt(self, fn, st, assume, env, depth):
        k = st.get("k")
        if k == "CompoundStmt":
            return self._stmts(fn, st.get("c", []), [(assume, env, None)], depth)
        if k == "DeclStmt":
            paths = [(assume, dict(env))]
            for d in st.get("c", []):
                if d.get("k") != "VarDecl":
                    continue
                nxt = []
                for as0, e0 in paths:
                    if d.get("c") and not d.get("w") and (d.get("ct") or d.get("t") or "").rstrip().endswith(("*", "*const")):
                        e0 = dict(e0)
                        e0[d["d"]] = self._pointer(fn, d["c"][0], e0, depth)
                        nxt.append((as0, e0))
                    elif d.get("c") and d.get("w"):
                        for a2, v in self._expr(fn, d["c"][0], e0, depth):
                            e2 = {kk: (vv.subst(a2) if isinstance(vv, BV) else vv) for kk, vv in e0.items()} if a2 else dict(e0)
                            e2[d["d"]] = self._conv(v, d["w"], d["c"][0])
                            nxt.append((dict(as0, **a2), e2))
                    else:
                        e0 = dict(e0)
                        e0[d["d"]] = None
                        nxt.append((as0, e0))
                paths = nxt
                if len(paths) > self.MAX_PATHS:
                    raise Unsupported("too many paths")
            return [(a, e, None) for a, e in paths]
        if k == "ReturnStmt":
            if not st.get("c"):
                return [(assume, env, "void")]
            out = []
            for a2, v in self._expr(fn, st["c"][0], env, depth):
                e2 = {kk: (vv.subst(a2) if isinstance(vv, BV) else vv) for kk, vv in env.items()}
                out.append((dict(assume, **a2), e2, v))
            return out
        if k == "IfStmt":
            parts = st["parts"]
            cond = st["c"][parts["cond"]]
            out = []
            for a2, cv in self._expr(fn, cond, env, depth):
                nz = [b for b in cv.bits if not (is_const(b) and b[1] == 0)]
                if not nz:
                    branches = [(False, {})]
                elif any(is_const(b) and b[1] == 1 for b in nz):
                    branches = [(True, {})]
                elif len(nz) == 1 and split_on(nz[0]):
                    branches = split_on(nz[0])
                else:
                    raise Unsupported("branch on a non-single-bit condition %s" % show(cond))
                for taken, asg in branches:
                    e2 = {kk: (vv.subst(asg) if isinstance(vv, BV) else vv) for kk, vv in env.items()}
                    as2 = dict(assume, **a2)
                    as2.update(asg)
                    body = st["c"][parts["then"]] if taken else (st["c"][parts["else"]] if "else" in parts else None)
                    if body is None:
                        out.append((as2, e2, None))
                    else:
                        out.extend(self._stmt(fn, body, as2, e2, depth))
            return out
        if k == "SwitchStmt":
            return self._switch(fn, st, assume, env, depth)
        if k in ("NullStmt", "BreakStmt"):
            return [(assume, env, None)]
        if k in ("ForStmt", "WhileStmt", "DoStmt"):
            return self._loop(fn, st, assume, env, depth)
        if k == "CXXForRangeStmt":
            raise Unsupported("loop")
        # expression statement
        out = []
        for a2, env2 in self._exec_expr(fn, st, env, depth):
            out.append((dict(assume, **a2), env2, None))
        return out

    MAX_PATHS = 4096

    def _loop(self, fn, st, assume, env, depth):
        """A loop whose condition is a constant on every pass (a counted loop over concrete values) is unrolled."""
        parts = st.get("parts", {})
        body = st["c"][parts["body"]] if "body" in parts else None
        if body is None and st["k"] == "DoStmt":
            body, condn = st["c"][0], st["c"][1]
        else:
            condn = st["c"][parts["cond"]] if "cond" in parts else None
        if body is None:
            raise Unsupported("loop without body")
        for x in walk(body):
            if x.get("k") in ("BreakStmt", "ContinueStmt", "GotoStmt"):
                raise Unsupported("loop with break/continue")
        paths = [(assume, env, None)]
        if "init" in parts:
            paths = self._stmts(fn, [st["c"][parts["init"]]], paths, depth)
        done = []
        first = True
        for _ in range(70):
            live = []
            for a, e, r in paths:
                if r is not None:
                    done.append((a, e, r))
                    continue
                if st["k"] == "DoStmt" and first:
                    live.append((a, e, None))
                    continue
                if condn is None:
                    raise Unsupported("loop without condition")
                cvs = self._expr(fn, condn, e, depth)
                if len(cvs) != 1 or cvs[0][1].value() is None:
                    raise Unsupported("loop condition is not a constant")
                if cvs[0][1].value():
                    live.append((a, e, None))
                else:
                    done.append((a, e, None))
            first = False
            if not live:
                return done
            if len(live) + len(done) > self.MAX_PATHS:
                raise Unsupported("too many paths")
            paths = self._stmts(fn, [body], live, depth)
            if "inc" in parts:
                paths = self._stmts(fn, [st["c"][parts["inc"]]], paths, depth)
        raise Unsupported("loop not finished after 70 passes")

    def _switch(self, fn, st, assume, env, depth):
        cond = st["c"][0]
        body = [c for c in st.get("c", []) if c.get("k") == "CompoundStmt"]
        if not body:
            raise Unsupported("switch without compound body")
        vs = self._expr(fn, cond, env, depth)
        if len(vs) != 1:
            raise Unsupported("forking switch condition")
        cv = vs[0][1]
        vars_ = set()
        for b in cv.bits:
            if b is TOP:
                raise Unsupported("switch on unknown value")
            vars_ |= b[0]
        vars_ = sorted(vars_)
        if len(vars_) > 6:
            raise Unsupported("switch on too many input bits")
        out = []
        for m in range(1 << len(vars_)):
            asg = {v: (m >> i) & 1 for i, v in enumerate(vars_)}
            val = cv.subst(asg).value()
            e2 = {kk: (vv.subst(asg) if isinstance(vv, BV) else vv) for kk, vv in env.items()}
            as2 = dict(assume, **asg)
            # statements from the matching label to the next break
            stmts = []
            active = False
            matched = False
            seq = body[0].get("c", [])
            # find matching case; default if none
            def labels(n):
                labs = []
                while n is not None and n.get("k") in ("CaseStmt", "DefaultStmt"):
                    labs.append(n.get("v") if n.get("k") == "CaseStmt" else "default")
                    n = n["c"][-1] if n.get("c") else None
                return labs, n
            allcases = set()
            for s in seq:
                if s.get("k") in ("CaseStmt", "DefaultStmt"):
                    allcases |= set(labels(s)[0])
            want = val if val in allcases else ("default" if "default" in allcases else None)
            if want is None:
                out.append((as2, e2, None))
                continue
            for s in seq:
                if s.get("k") in ("CaseStmt", "DefaultStmt"):
                    labs, inner = labels(s)
                    if want in labs:
                        active = True
                    s = inner
                if not active or s is None:
                    continue
                if s.get("k") == "BreakStmt":
                    break
                stmts.append(s)
            out.extend(self._stmts(fn, stmts, [(as2, e2, None)], depth))
        return out

    # --- expressions with side effects (assignments) -----------------------
    def _exec_expr(self, fn, e, env, depth):
        s = strip_all(e)
        if s is None:
            return [({}, env)]
        k = s.get("k")
        if k in ("BinaryOperator", "CompoundAssignOperator") and s.get("op") in ("=", "|=", "&=", "^=", "<<=", ">>=", "+="):
            tgt = strip_all(s["c"][0])
            if tgt.get("k") in ("DeclRefExpr", "MemberExpr"):
                key = tgt["d"]
                vs = self._expr(fn, s["c"][1], env, depth)
                if len(vs) != 1 and s["op"] != "=":
                    outp = []
                    for a2, rv in vs:
                        e2 = {kk: (vv.subst(a2) if isinstance(vv, BV) else vv) for kk, vv in env.items()}
                        cur = e2.get(key)
                        if cur is None:
                            raise Unsupported("compound assignment to unknown")
                        w = tgt.get("w") or rv.width
                        cw = (s.get("comp") or {}).get("w") or max(w, rv.width)
                        a_, b_ = cur.resize(cw, bool(tgt.get("sg"))), self._conv(rv, cw, s["c"][1])
                        nv = self._binop(s["op"][:-1], a_, b_, s, fn, e2, depth, rhs_node=s["c"][1])
                        e2[key] = nv.resize(w, False) if nv.width >= w else self._conv(nv, w, s["c"][1])
                        outp.append((a2, e2))
                    return outp
                if len(vs) != 1:
                    # one path per case of the right-hand side (e.g. a table indexed by two input bits)
                    outp = []
                    for a2, rv in vs:
                        w = tgt.get("w") or rv.width
                        e2 = {kk: (vv.subst(a2) if isinstance(vv, BV) else vv) for kk, vv in env.items()}
                        e2[key] = rv.resize(w, False) if rv.width >= w else self._conv(rv, w, s["c"][1])
                        outp.append((a2, e2))
                    return outp
                a2, rv = vs[0]
                w = tgt.get("w") or rv.width
                if s["op"] != "=":
                    cur = env.get(key)
                    if cur is None:
                        raise Unsupported("compound assignment to unknown")
                    cw = (s.get("comp") or {}).get("w") or max(w, rv.width)
                    a_, b_ = cur.resize(cw, bool(tgt.get("sg"))), self._conv(rv, cw, s["c"][1])
                    op = s["op"][:-1]
                    rv = self._binop(op, a_, b_, s, fn, env, depth, rhs_node=s["c"][1])
                env = dict(env)
                env[key] = rv.resize(w, False) if rv.width >= w else self._conv(rv, w, s["c"][1])
                return [(a2, env)]
            raise Unsupported("assignment to %s" % show(tgt))
        if k == "CXXOperatorCallExpr" and s.get("op") == "=" and len(s.get("c", [])) == 3:
            # assignment to a class-typed member/variable from an integral value
            # (e.g. std::optional<byte> x = buf[4]): track the value under the target's id
            tgt = strip_all(s["c"][1])
            rhs = strip_all(s["c"][2])
            for _ in range(3):
                if rhs is not None and rhs.get("k") in ("CXXConstructExpr", "CXXTemporaryObjectExpr", "CXXFunctionalCastExpr") \
                        and len(rhs.get("c", [])) == 1:
                    rhs = strip_all(rhs["c"][0])
            if tgt is not None and tgt.get("k") in ("DeclRefExpr", "MemberExpr") and rhs is not None and rhs.get("w"):
                vs = self._expr(fn, rhs, env, depth)
                if len(vs) == 1:
                    env = dict(env)
                    env[tgt["d"]] = vs[0][1]
                    return [(vs[0][0], env)]
        if k == "UnaryOperator" and s.get("op") in ("++", "--"):
            tgt = strip_all(s["c"][0])
            if tgt is not None and tgt.get("k") in ("DeclRefExpr", "MemberExpr") and isinstance(env.get(tgt.get("d")), BV):
                cur = env[tgt["d"]]
                cv = cur.value()
                env = dict(env)
                if cv is None:
                    env[tgt["d"]] = BV([TOP] * cur.width)
                else:
                    env[tgt["d"]] = BV.const((cv + (1 if s["op"] == "++" else -1)) & ((1 << cur.width) - 1), cur.width)
                return [({}, env)]
        if k == "CXXMemberCallExpr" and not s.get("w"):
            # a void method of the same object: its effect on the tracked members
            cal = strip(s["c"][0]) if s.get("c") else None
            obj = strip_all(cal["c"][0]) if cal is not None and cal.get("c") else None
            ts = self.prog.call_targets(fn, s)
            if (obj is None or obj.get("k") == "CXXThisExpr") and len(ts) == 1 and ts[0].body is not None and \
                    any(isinstance(env.get(x.get("d")), BV) for x in ts[0].walk() if x.get("k") == "MemberExpr"):
                return self._call_effects(fn, s, ts[0], env, depth)
        # evaluate for completeness (calls without effect on tracked state)
        return [({}, env)]

    def _call_effects(self, fn, n, callee, env, depth):
        if depth >= self.max_inline:
            raise Unsupported("inline depth")
        cenv = dict(env)
        assume = {}
        for p, a in zip(callee.params, call_args(n)):
            vs = self._expr(fn, a, env, depth)
            if len(vs) != 1:
                raise Unsupported("forking argument")
            assume.update(vs[0][0])
            w = p.get("w")
            cenv[p["d"]] = self._conv(vs[0][1], w, a) if w else vs[0][1]
        out = []
        for a2, e2, ret in self._stmts(callee, [callee.body], [(assume, cenv, None)], depth + 1):
            merged = {kk: (vv.subst(a2) if isinstance(vv, BV) else vv) for kk, vv in env.items()}
            for kk in env:
                if kk in e2:
                    merged[kk] = e2[kk]
            out.append((a2, merged))
        return out

    # --- pure expressions --------------------------------------------------
    def _conv(self, v, w, src_node):
        s = strip(src_node)
        signed = bool(s.get("sg")) if s is not None and s.get("sg") is not None else False
        return v.resize(w, signed)

    def _expr(self, fn, e, env, depth):
        """returns list of (assumptions, BV)"""
        n = e
        if n is None:
            raise Unsupported("null expression")
        k = n.get("k")
        w = n.get("w")
        if k in ("ParenExpr", "ExprWithCleanups", "MaterializeTemporaryExpr", "CXXBindTemporaryExpr", "ConstantExpr"):
            return self._expr(fn, n["c"][0], env, depth)
        if "cv" in n and w:
            return [({}, BV.const(n["cv"], w))]
        if k in ("IntegerLiteral", "CharacterLiteral", "CXXBoolLiteralExpr"):
            return [({}, BV.const(n.get("v", 0), w or 32))]
        if k in ("ImplicitCastExpr", "CStyleCastExpr", "CXXStaticCastExpr", "CXXFunctionalCastExpr"):
            sub = n["c"][0]
            out = []
            for a, v in self._expr(fn, sub, env, depth):
                if n.get("ck") in ("IntegralToBoolean",):
                    # value != 0 : only representable when one bit can be set
                    nz = [b for b in v.bits if not (is_const(b) and b[1] == 0)]
                    if not nz:
                        out.append((a, BV.const(0, w or 8)))
                    elif len(nz) == 1:
                        out.append((a, BV([nz[0]] + [bconst(0)] * ((w or 8) - 1))))
                    else:
                        out.append((a, BV([TOP] + [bconst(0)] * ((w or 8) - 1))))
                    continue
                if w is None:
                    out.append((a, v))
                else:
                    ss = strip(sub)
                    signed = bool(ss.get("sg")) if ss is not None and ss.get("sg") is not None else False
                    out.append((a, v.resize(w, signed)))
            return out
        if k == "DeclRefExpr":
            v = env.get(n["d"])
            if v is None:
                if n.get("dk") == "EnumConstant":
                    return [({}, BV.const(n.get("v", 0), w or 32))]
                raise Unsupported("unknown value of %s" % n.get("n"))
            return [({}, v)]
        if k == "MemberExpr":
            v = env.get(n["d"])
            if v is None:
                # a field of a struct value bound from a constant (a parameter passed `{0, 2}`-style constants)
                base = strip_all(n["c"][0]) if n.get("c") else None
                sv = env.get(base.get("d")) if base is not None and base.get("k") == "DeclRefExpr" else None
                if isinstance(sv, tuple) and sv and sv[0] == "struct" and n.get("n") in sv[1]:
                    return [({}, sv[1][n["n"]].resize(w or sv[1][n["n"]].width))]
                raise Unsupported("unknown member %s" % n.get("n"))
            return [({}, v)]
        if k == "UnaryOperator":
            op = n["op"]
            if op == "~":
                return [(a, bv_not(v)) for a, v in self._expr(fn, n["c"][0], env, depth)]
            if op == "!":
                out = []
                for a, v in self._expr(fn, n["c"][0], env, depth):
                    nz = [b for b in v.bits if not (is_const(b) and b[1] == 0)]
                    if not nz:
                        out.append((a, BV.const(1, w or 8)))
                    elif len(nz) == 1:
                        out.append((a, BV([bnot(nz[0])] + [bconst(0)] * ((w or 8) - 1))))
                    else:
                        out.append((a, BV([TOP] + [bconst(0)] * ((w or 8) - 1))))
                return out
            if op in ("+",):
                return self._expr(fn, n["c"][0], env, depth)
            if op == "*":
                return self._subscript(fn, n["c"][0], None, n, env, depth)
            raise Unsupported("unary %s" % op)
        if k == "BinaryOperator":
            op = n["op"]
            if op == ",":
                return self._expr(fn, n["c"][1], env, depth)
            out = []
            for a1, l in self._expr(fn, n["c"][0], env, depth):
                for a2, r in self._expr(fn, n["c"][1], env, depth):
                    ww = w or max(l.width, r.width)
                    if op in ("==", "!=", "<", "<=", ">", ">="):
                        ww = max(l.width, r.width)      # the result is a bool; the operands keep their width
                    if op in ("<<", ">>"):
                        lv = l.resize(ww, self._signed(n["c"][0]))
                        out.append((dict(a1, **a2), self._binop(op, lv, r, n, fn, env, depth, rhs_node=n["c"][1])))
                    else:
                        lv = l.resize(ww, self._signed(n["c"][0]))
                        rv = r.resize(ww, self._signed(n["c"][1]))
                        out.append((dict(a1, **a2), self._binop(op, lv, rv, n, fn, env, depth, rhs_node=n["c"][1])))
            return out
        if k == "ConditionalOperator":
            out = []
            for a, cv in self._expr(fn, n["c"][0], env, depth):
                nz = [b for b in cv.bits if not (is_const(b) and b[1] == 0)]
                if not nz:
                    out.extend((dict(a, **a2), v) for a2, v in self._expr(fn, n["c"][2], env, depth))
                elif any(is_const(b) and b[1] for b in nz):
                    out.extend((dict(a, **a2), v) for a2, v in self._expr(fn, n["c"][1], env, depth))
                elif len(nz) == 1 and split_on(nz[0]) and self._mux(fn, n, nz[0], env, depth) is not None:
                    # both arms differ by constants only: cond ? x^K : x  ==  x ^ (cond & K), no case split needed
                    out.append((a, self._mux(fn, n, nz[0], env, depth)))
                elif len(nz) == 1 and split_on(nz[0]):
                    for tk, asg in split_on(nz[0]):
                        taken = 1 if tk else 2
                        e2 = {kk: (vv.subst(asg) if isinstance(vv, BV) else vv) for kk, vv in env.items()}
                        for a2, v in self._expr(fn, n["c"][taken], e2, depth):
                            out.append((dict(dict(a, **asg), **a2), v.subst(asg)))
                else:
                    raise Unsupported("?: on non-single-bit condition")
            return out
        if k in ("ArraySubscriptExpr",):
            return self._subscript(fn, n["c"][0], n["c"][1], n, env, depth)
        if k == "CXXOperatorCallExpr" and n.get("op") == "[]" and len(n["c"]) == 3:
            return self._subscript(fn, n["c"][1], n["c"][2], n, env, depth)
        if is_call(n):
            return self._call(fn, n, env, depth)
        raise Unsupported("expression kind %s (%s)" % (k, show(n)[:40]))

    def _mux(self, fn, n, cbit, env, depth):
        """cond ? A : B as one value when every bit of A and B is equal or differs by the constant 1."""
        try:
            va = self._expr(fn, n["c"][1], env, depth)
            vb = self._expr(fn, n["c"][2], env, depth)
        except Unsupported:
            return None
        if len(va) != 1 or len(vb) != 1 or va[0][0] or vb[0][0]:
            return None
        A, B = va[0][1], vb[0][1]
        w = n.get("w") or max(A.width, B.width)
        A, B = A.resize(w, self._signed(n["c"][1])), B.resize(w, self._signed(n["c"][2]))
        bits = []
        for x, y in zip(A.bits, B.bits):
            if x is TOP or y is TOP:
                return None
            d = bxor(x, y)
            if d[0]:
                return None
            bits.append(bxor(y, cbit) if d[1] else y)
        return BV(bits)

    def _signed(self, node):
        s = strip(node)
        return bool(s.get("sg")) if s is not None and s.get("sg") is not None else False

    def _binop(self, op, l, r, n, fn, env, depth, rhs_node=None):
        if op == "&":
            return bv_and(l, r)
        if op == "|":
            return bv_or(l, r)
        if op == "^":
            return bv_xor(l, r)
        if op in ("<<", ">>"):
            k = r.value()
            if k is None:
                raise Unsupported("shift by a non-constant")
            return bv_shl(l, k) if op == "<<" else bv_shr(l, k, False)
        if op == "+":
            return bv_add(l, r)
        if op == "*":
            kv = r.value()
            lv = l.value()
            if kv is not None and kv > 0 and (kv & (kv - 1)) == 0:
                return bv_shl(l, kv.bit_length() - 1)
            if lv is not None and lv > 0 and (lv & (lv - 1)) == 0:
                return bv_shl(r, lv.bit_length() - 1)
            if kv is not None and lv is not None:
                return BV.const(kv * lv, l.width)
            # a value known to be 0 or 1 times a constant: each set bit of the constant carries that one bit
            for one, c in ((l, kv), (r, lv)):
                if c is not None and all(is_const(b) and b[1] == 0 for b in one.bits[1:]):
                    b0 = one.bits[0]
                    return BV([b0 if (c >> i) & 1 else bconst(0) for i in range(one.width)])
            # a general constant factor: sum of shifted copies, exact while they do not overlap
            for val, c in ((l, kv), (r, lv)):
                if c is not None and c > 0:
                    acc = BV.const(0, val.width)
                    for i in range(c.bit_length()):
                        if (c >> i) & 1:
                            acc = bv_add(acc, bv_shl(val, i))
                    return acc
            raise Unsupported("multiplication of two symbolic values")
        if op in ("/", "%"):
            kv = r.value()
            if kv is not None and kv > 0 and (kv & (kv - 1)) == 0:
                k = kv.bit_length() - 1
                if op == "/":
                    return bv_shr(l, k, False)
                return BV([b if i < k else bconst(0) for i, b in enumerate(l.bits)])
            lv = l.value()
            if kv is not None and lv is not None and kv != 0:
                return BV.const(lv // kv if op == "/" else lv % kv, l.width)
            raise Unsupported("division by a value that is not a constant power of two")
        if op == "-":
            lv, rv = l.value(), r.value()
            if lv is not None and rv is not None:
                return BV.const((lv - rv) & ((1 << l.width) - 1), l.width)
            raise Unsupported("subtraction of symbolic values")
        if op in ("==", "!="):
            # only decidable when both constant, or comparing a single-bit value with 0
            lv, rv = l.value(), r.value()
            rw = n.get("w") or 32
            if lv is not None and rv is not None:
                return BV.const(int((lv == rv) == (op == "==")), 1).resize(rw)
            # a value with one possibly-set bit against 0; two 0/1 values against each other
            for x, other in ((l, rv), (r, lv)):
                nzb = [b for b in x.bits if not (is_const(b) and b[1] == 0)]
                if other == 0 and len(nzb) == 1 and nzb[0] is not TOP:
                    b0 = nzb[0] if op == "!=" else bnot(nzb[0])
                    return BV([b0] + [bconst(0)] * (rw - 1))
            if all(is_const(b) and b[1] == 0 for b in l.bits[1:] + r.bits[1:]) and l.bits[0] is not TOP and r.bits[0] is not TOP:
                b0 = bxor(l.bits[0], r.bits[0])
                return BV([b0 if op == "!=" else bnot(b0)] + [bconst(0)] * (rw - 1))
            raise Unsupported("symbolic comparison")
        if op in ("<", "<=", ">", ">="):
            lv, rv = l.value(), r.value()
            if lv is not None and rv is not None:
                sg = bool((strip(n["c"][0]) or {}).get("sg")) if n.get("c") else False
                if sg:
                    lv = lv - (1 << l.width) if lv >> (l.width - 1) else lv
                    rv = rv - (1 << r.width) if rv >> (r.width - 1) else rv
                res = {"<": lv < rv, "<=": lv <= rv, ">": lv > rv, ">=": lv >= rv}[op]
                return BV.const(int(res), n.get("w") or 32)
            raise Unsupported("symbolic ordering comparison")
        raise Unsupported("binary %s" % op)

    def _const_table(self, fn, base):
        """Values of a constant array (static const local or global with a braced initialiser), or None."""
        b = strip_all(base)
        if b is None or b.get("k") != "DeclRefExpr":
            return None
        init = None
        for v in fn.walk():
            if v.get("k") == "VarDecl" and v.get("d") == b.get("d") and v.get("c") and (v.get("const") or "const" in (v.get("t") or "")):
                init = strip_all(v["c"][0])
        if init is None:
            for g in self.prog.globals.values():
                if g["n"] == b.get("n") and g.get("init") and (g.get("const") or g.get("constexpr")):
                    init = strip_all(g["init"])
        if init is None or init.get("k") != "InitListExpr":
            return None
        vals = []
        for c in init.get("c", []):
            v = folded(c)
            if v is None:
                return None
            vals.append(v)
        return vals

    def _subscript(self, fn, base, idx, node, env, depth):
        iv = 0
        if idx is not None:
            vs = self._expr(fn, idx, env, depth)
            if len(vs) != 1:
                raise Unsupported("forking index")
            iv = vs[0][1].value()
            if iv is None:
                # a constant table indexed by a few input bits: one case per value of those bits
                table = self._const_table(fn, base)
                ibv = vs[0][1]
                sym = [b for b in ibv.bits if not is_const(b)]
                if table is not None and 0 < len(sym) <= 6 and all(b is not TOP and len(b[0]) == 1 for b in sym):
                    names = sorted({next(iter(b[0])) for b in sym})
                    out = []
                    w = node.get("w") or 32
                    for mask in range(1 << len(names)):
                        asg = {nm: (mask >> i) & 1 for i, nm in enumerate(names)}
                        k_ = ibv.subst(asg).value()
                        if k_ is None or k_ >= len(table):
                            raise Unsupported("table index out of range")
                        out.append((asg, BV.const(table[k_], w)))
                    return out
                raise Unsupported("non-constant index %s" % show(idx))
        b = strip_all(base)
        # pointer arithmetic base: (p + k)[i]
        off = 0
        while b is not None and b.get("k") == "BinaryOperator" and b.get("op") == "+":
            kv = self._expr(fn, b["c"][1], env, depth)[0][1].value()
            if kv is None:
                raise Unsupported("non-constant pointer offset")
            off += kv
            b = strip_all(b["c"][0])
        # a pointer parameter bound to an input array with offset
        if b is not None and b.get("k") == "DeclRefExpr" and isinstance(env.get(b["d"]), tuple):
            tag, base_node, base_off = env[b["d"]]
            v = self.input_hook(base_node, base_off + off + iv, node.get("w") or 8)
            if v is not None:
                return [({}, v)]
        v = self.input_hook(b, off + iv, node.get("w") or 8)
        if v is None:
            raise Unsupported("subscript of a non-input array %s" % show(base))
        return [({}, v)]

    def _struct_constant(self, fn, a, ptype):
        """("struct", {field: BV}) when the argument is a constant object of a plain struct type whose
        initialiser is a braced list of integer constants; None otherwise."""
        x = strip_all(a)
        for _ in range(3):
            if x is not None and x.get("k") in ("CXXConstructExpr", "CXXTemporaryObjectExpr") and len(x.get("c", [])) == 1:
                x = strip_all(x["c"][0])
        init = None
        if x is not None and x.get("k") == "InitListExpr":
            init = x
        elif x is not None and x.get("k") in ("DeclRefExpr", "MemberExpr") and not x.get("w"):
            nm = x.get("n")
            for g in self.prog.globals.values():
                if g["n"] == nm and g.get("init") and (g.get("const") or g.get("constexpr")):
                    i2 = strip_all(g["init"])
                    for _ in range(3):
                        if i2 is not None and i2.get("k") in ("CXXConstructExpr",) and len(i2.get("c", [])) == 1:
                            i2 = strip_all(i2["c"][0])
                    if i2 is not None and i2.get("k") == "InitListExpr":
                        init = i2
        if init is None:
            return None
        rt = notpl((ptype or "").replace("const ", "").replace("&", "").strip())
        rec = [rc for q_, rc in self.prog.records.items() if notpl(q_).split("::")[-1] == rt.split("::")[-1]]
        if not rec or len(rec[0]["fields"]) != len(init.get("c", [])):
            return None
        fields = {}
        for f_, c in zip(rec[0]["fields"], init["c"]):
            v = folded(c)
            if v is None or not f_.get("w"):
                return None
            fields[f_["n"]] = BV.const(v, f_["w"])
        return ("struct", fields)

    def _pointer(self, fn, a, env, depth):
        """("ptr", base array node, constant offset) for a pointer/reference-valued expression:
        arr, arr + k, arr.data() + k, &arr[k], p (a pointer already bound), p + k."""
        b = strip_all(a)
        off = 0
        while True:
            if b is not None and b.get("k") == "BinaryOperator" and b.get("op") == "+":
                kv = self._expr(fn, b["c"][1], env, depth)[0][1].value()
                if kv is None:
                    raise Unsupported("non-constant pointer offset")
                off += kv
                b = strip_all(b["c"][0])
                continue
            if b is not None and b.get("k") == "UnaryOperator" and b.get("op") == "&":
                inner = strip_all(b["c"][0])
                base = idx = None
                if inner is not None and inner.get("k") == "ArraySubscriptExpr":
                    base, idx = inner["c"][0], inner["c"][1]
                elif inner is not None and inner.get("k") == "CXXOperatorCallExpr" and inner.get("op") == "[]":
                    base, idx = inner["c"][1], inner["c"][2]
                if base is not None:
                    kv = self._expr(fn, idx, env, depth)[0][1].value()
                    if kv is None:
                        raise Unsupported("non-constant index under &")
                    off += kv
                    b = strip_all(base)
                    continue
            break
        if b is not None and b.get("k") == "CXXMemberCallExpr":
            cal = strip(b["c"][0])
            if cal and cal.get("n") == "data" and cal.get("c"):
                b = strip_all(cal["c"][0])
        if b is not None and b.get("k") == "DeclRefExpr" and isinstance(env.get(b["d"]), tuple):
            tag, bn, bo = env[b["d"]]
            return ("ptr", bn, bo + off)
        return ("ptr", b, off)

    def _call(self, fn, n, env, depth):
        if depth >= self.max_inline:
            raise Unsupported("inline depth")
        targets = self.prog.call_targets(fn, n)
        if len(targets) != 1:
            raise Unsupported("call to %s cannot be inlined" % notpl(n.get("q") or "?"))
        callee = targets[0]
        args = call_args(n)
        # members of *this stay visible to methods of the same object
        variants = [({}, dict(env))]        # (assumptions, callee environment) - one per combination of argument cases
        for p, a in zip(callee.params, args):
            pt = p.get("ct") or p.get("t") or ""
            sc = self._struct_constant(fn, a, pt)
            if sc is not None:
                for _a, ce in variants:
                    ce[p["d"]] = sc
                continue
            if "*" in pt or "&" in pt and not p.get("w"):
                # pointer/reference to an input array (+ constant offset)
                pv = self._pointer(fn, a, env, depth)
                for _a, ce in variants:
                    ce[p["d"]] = pv
                continue
            nxt = []
            for as0, ce in variants:
                e0 = {kk: (vv.subst(as0) if isinstance(vv, BV) else vv) for kk, vv in env.items()} if as0 else env
                for a2, v in self._expr(fn, a, e0, depth):
                    ce2 = {kk: (vv.subst(a2) if isinstance(vv, BV) else vv) for kk, vv in ce.items()} if a2 else dict(ce)
                    w = p.get("w")
                    ce2[p["d"]] = self._conv(v, w, a) if w else v
                    nxt.append((dict(as0, **a2), ce2))
            variants = nxt
            if len(variants) > self.MAX_PATHS:
                raise Unsupported("too many paths")
        out = []
        for assume, cenv in variants:
            for a2, e2, ret in self._stmts(callee, [callee.body], [(assume, cenv, None)], depth + 1):
                if ret is None or ret == "void":
                    raise Unsupported("callee %s has a path without a value" % callee.qn)
                w = n.get("w")
                out.append((a2, ret.resize(w, False) if w else ret))
        return out
