"""CFG dataflow helpers: branch facts that hold on every path (must-guards),
normalised comparisons, event reachability."""
from .model import strip, strip_all, walk, kids, show, is_call, call_receiver, notpl

MUTATORS = {"reset", "emplace", "swap", "clear", "resize", "push_back", "emplace_back", "assign",
            "erase", "insert", "pop_back", "reserve", "append", "shrink_to_fit", "pop_front", "push_front",
            "emplace_front"}
ASSIGN_OPS = {"=", "+=", "-=", "*=", "/=", "%=", "<<=", ">>=", "&=", "|=", "^="}
NEG = {"<": ">=", "<=": ">", ">": "<=", ">=": "<", "==": "!=", "!=": "=="}
SWAP = {"<": ">", "<=": ">=", ">": "<", ">=": "<=", "==": "==", "!=": "!="}


def decl_ids(n):
    """Declaration ids referenced anywhere in the expression (variables, fields)."""
    out = set()
    for x in walk(n):
        if x.get("k") in ("DeclRefExpr", "MemberExpr") and x.get("dk") in (
                "Var", "ParmVar", "Field", "Binding", "Decomposition"):
            out.add(x["d"])
    return out


def written_decls(n):
    """Declaration ids that evaluating this single node (not its children)
    may write: assignment targets, ++/--, mutating member calls."""
    k = n.get("k")
    out = set()
    tgt = None
    if k in ("BinaryOperator", "CompoundAssignOperator") and n.get("op") in ASSIGN_OPS:
        tgt = n["c"][0]
    elif k == "UnaryOperator" and n.get("op") in ("++", "--"):
        tgt = n["c"][0]
    elif k == "CXXOperatorCallExpr" and n.get("op") in ASSIGN_OPS | {"++", "--"}:
        tgt = n["c"][1] if len(n["c"]) > 1 else None
    elif k == "CXXMemberCallExpr":
        callee = strip(n["c"][0])
        if callee and callee.get("k") == "MemberExpr" and callee.get("n") in MUTATORS:
            tgt = callee["c"][0] if callee.get("c") else None
    if tgt is not None:
        t = lvalue_root(tgt)
        if t is not None:
            out.add((t, _is_element_lvalue(tgt)))
    return out


def _is_element_lvalue(n):
    """True when the lvalue designates an element *inside* the root object
    (subscript / dereference), so the root's size and identity are unchanged."""
    n = strip_all(n)
    k = n.get("k") if n else None
    if k == "ArraySubscriptExpr":
        return True
    if k == "UnaryOperator" and n.get("op") == "*":
        return True
    if k == "CXXOperatorCallExpr" and n.get("op") in ("[]", "*", "->"):
        return True
    if k == "MemberExpr" and n.get("c"):
        return _is_element_lvalue(n["c"][0])
    return False


SIZE_LIKE = {"size", "empty", "length", "capacity", "begin", "end", "cbegin", "cend"}


def shape_only_decls(n):
    """Decl ids that the expression mentions *only* as receiver of
    size()/empty()-like calls."""
    anyuse, shape = {}, {}
    def rec(x, shape_ctx):
        if x is None:
            return
        k = x.get("k")
        if k in ("DeclRefExpr", "MemberExpr") and x.get("dk") in ("Var", "ParmVar", "Field", "Binding"):
            anyuse[x["d"]] = anyuse.get(x["d"], 0) + 1
            if shape_ctx:
                shape[x["d"]] = shape.get(x["d"], 0) + 1
        if k == "CXXMemberCallExpr":
            callee = strip(x["c"][0])
            if callee is not None and callee.get("k") == "MemberExpr" and callee.get("n") in SIZE_LIKE and callee.get("c"):
                rec(strip_all(callee["c"][0]), True)
                for a in x["c"][1:]:
                    rec(a, False)
                return
        for c in x.get("c", []):
            rec(c, False)
    rec(n, False)
    return set(d for d in anyuse if shape.get(d, 0) == anyuse[d])


def lvalue_root(n):
    """Declaration id of the variable/field an lvalue expression designates
    (through casts, parens, subscripts, member access, dereference)."""
    n = strip_all(n)
    while n is not None:
        k = n.get("k")
        if k == "DeclRefExpr":
            return n.get("d")
        if k == "MemberExpr":
            base = strip_all(n["c"][0]) if n.get("c") else None
            if base is None or base.get("k") == "CXXThisExpr":
                return n.get("d")
            # field of a local object: treat as a write to that object and the field
            return n.get("d")
        if k in ("ArraySubscriptExpr",):
            n = strip_all(n["c"][0])
            continue
        if k == "UnaryOperator" and n.get("op") == "*":
            n = strip_all(n["c"][0])
            continue
        if k == "CXXOperatorCallExpr" and n.get("op") in ("[]", "*", "->"):
            n = strip_all(n["c"][1])
            continue
        return None
    return None


def element_nodes(fn, b):
    for e in fn.cfg.blocks[b]["e"]:
        if isinstance(e, int):
            n = fn.nodes.get(e)
            if n is not None:
                yield n


def canon(n):
    """Canonical string of an expression (declaration identities, operators,
    literal values), insensitive to value-preserving wrappers."""
    n = strip_all(n)
    if n is None:
        return "?"
    k = n.get("k")
    c = n.get("c", [])
    if k == "DeclRefExpr":
        if n.get("dk") == "EnumConstant" and "v" in n:
            return "#%s" % n["v"]
        return "d%s" % n.get("d")
    if k == "MemberExpr":
        base = strip_all(c[0]) if c else None
        if base is None or base.get("k") == "CXXThisExpr":
            return "this.m%s" % n.get("d")
        return "%s.m%s" % (canon(base), n.get("d"))
    if k == "CXXThisExpr":
        return "this"
    if k in ("IntegerLiteral", "CharacterLiteral", "CXXBoolLiteralExpr"):
        return "#%s" % n.get("v")
    if "cv" in n and k not in ("CallExpr", "CXXMemberCallExpr"):
        return "#%s" % n["cv"]
    if k == "StringLiteral":
        return "s%r" % n.get("s")
    if k in ("UnaryOperator", "BinaryOperator", "CompoundAssignOperator"):
        return "(%s %s)" % (n.get("op"), " ".join(canon(x) for x in c))
    if k in CALLISH:
        return "%s[%s](%s)" % (k[:4], n.get("fn") or n.get("op") or "", ",".join(canon(x) for x in c))
    if k in ("CStyleCastExpr", "CXXStaticCastExpr", "CXXFunctionalCastExpr", "CXXReinterpretCastExpr"):
        return "cast<%s>(%s)" % (n.get("ct") or n.get("t"), canon(c[0]) if c else "")
    return "%s(%s)" % (k, ",".join(canon(x) for x in c))


CALLISH = {"CallExpr", "CXXMemberCallExpr", "CXXOperatorCallExpr", "CXXConstructExpr", "CXXTemporaryObjectExpr"}


def atomise(cond, outcome):
    """Split `cond == outcome` into atomic facts.
    Yields ("T", atom_node, truth) or ("C", lhs, rel, rhs)."""
    n = strip_all(cond)
    if n is None:
        return
    k = n.get("k")
    if k == "UnaryOperator" and n.get("op") == "!":
        yield from atomise(n["c"][0], not outcome)
        return
    if k == "CXXOperatorCallExpr" and n.get("op") == "!" and len(n["c"]) == 2:
        yield from atomise(n["c"][1], not outcome)
        return
    if k == "BinaryOperator" and n.get("op") == "&&":
        if outcome:
            yield from atomise(n["c"][0], True)
            yield from atomise(n["c"][1], True)
        else:
            # not both: usable by unit propagation when each side is one atom
            a = list(atomise(n["c"][0], True))
            b = list(atomise(n["c"][1], True))
            if len(a) == 1 and len(b) == 1 and a[0][0] in "TC" and b[0][0] in "TC":
                yield ("NAND", a[0], b[0])
        return
    if k == "BinaryOperator" and n.get("op") == "||":
        if not outcome:
            yield from atomise(n["c"][0], False)
            yield from atomise(n["c"][1], False)
        else:
            a = list(atomise(n["c"][0], False))
            b = list(atomise(n["c"][1], False))
            if len(a) == 1 and len(b) == 1 and a[0][0] in "TC" and b[0][0] in "TC":
                yield ("NAND", a[0], b[0])   # not (both false)
        return
    cf = cmp_fact(n, outcome)
    if cf:
        l, rel, r = cf
        # comparisons against null / nullopt are truthiness facts
        atom, pos = bool_atom(n)
        if atom is not n:
            yield ("T", atom, pos if outcome else (not pos))
            return
        yield ("C", l, rel, r)
        return
    atom, pos = bool_atom(n)
    if atom is not None:
        yield ("T", atom, pos if outcome else (not pos))


def negate_key(k):
    if k[0] == "T":
        return ("T", k[1], not k[2])
    if k[0] == "C":
        return ("C", k[1], NEG[k[2]], k[3])
    return None


def fact_key(f):
    if f[0] == "NAND":
        a, b = fact_key(f[1]), fact_key(f[2])
        if b < a:
            a, b = b, a
        return ("NAND", a, b)
    if f[0] == "T":
        return ("T", canon(f[1]), f[2])
    if f[0] == "C":
        a, rel, b = canon(f[1]), f[2], canon(f[3])
        if b < a:
            a, b, rel = b, a, SWAP[rel]
        return ("C", a, rel, b)
    return f


class Guards:
    """Facts that hold on every path reaching a program point, derived from
    branch edges and normalised so that different tests of the same thing
    meet at joins:
       ("T", canon(expr), bool)            expr is truthy / engaged / non-null
       ("C", canon(l), rel, canon(r))      l rel r
       ("S", canon(expr), value|'default') switch edge
    A fact is killed when a variable it mentions is written."""

    def __init__(self, fn, extra_writes=None):
        self.fn = fn
        self.extra_writes = extra_writes
        cfg = fn.cfg
        self.cfg = cfg
        reach = cfg.reachable()
        self.rep = {}       # fact key -> representative raw fact (with nodes)
        self.vars = {}      # fact key -> decl ids mentioned
        self.shape = {}     # fact key -> decl ids mentioned only through size()-like calls
        self.edge_facts = {}
        # single-definition bool locals: `const bool ok = <expr>;` never assigned afterwards
        self.bool_defs = {}
        assigned = set()
        for n in fn.walk():
            for d, _ in written_decls(n):
                assigned.add(d)
        self._assigned_anywhere = assigned
        for n in fn.walk():
            if n.get("k") == "VarDecl" and n.get("c") and n.get("d") not in assigned and \
                    (n.get("ct") or n.get("t") or "").replace("const ", "") in ("bool", "_Bool"):
                self.bool_defs[n["d"]] = n["c"][0]
        for bid in reach:
            b = cfg.blocks[bid]
            ss = cfg.succ[bid]
            cond = b.get("cond")
            tk = b.get("termk")
            if cond is None or tk is None:
                continue
            cn = fn.nodes.get(cond)
            if cn is None:
                continue
            if tk == "SwitchStmt":
                for s in ss:
                    if s < 0:
                        continue
                    lb = cfg.blocks[s]
                    if lb.get("labelk") == "CaseStmt" and lb.get("label") is not None:
                        ln = fn.nodes.get(lb["label"])
                        if ln is not None and "v" in ln and "v2" not in ln:
                            self._add_edge(bid, s, [("S", cn, ln["v"])])
                    elif lb.get("labelk") == "DefaultStmt":
                        self._add_edge(bid, s, [("S", cn, "default")])
            elif len(ss) == 2 and ss[0] != ss[1]:
                if ss[0] >= 0:
                    self._add_edge(bid, ss[0], self._expand_aliases(list(atomise(cn, True))))
                if ss[1] >= 0:
                    self._add_edge(bid, ss[1], self._expand_aliases(list(atomise(cn, False))))
        self.block_writes = {}
        for bid in reach:
            w = set()
            for n in element_nodes(fn, bid):
                w |= self._writes(n)
            self.block_writes[bid] = w
        TOP = None
        IN = {b: TOP for b in reach}
        OUT = {b: TOP for b in reach}
        order = sorted(reach, reverse=True)
        changed = True
        while changed:
            changed = False
            for b in order:
                if b == cfg.entry:
                    new_in = frozenset()
                else:
                    acc = TOP
                    for p in cfg.pred[b]:
                        if p not in reach or OUT[p] is TOP:
                            continue
                        contrib = self._weaken(set(OUT[p]) | self.edge_facts.get((p, b), set()))
                        acc = contrib if acc is TOP else (acc & contrib)
                    if acc is TOP:
                        continue
                    new_in = frozenset(acc)
                new_out = frozenset(f for f in new_in if not self._killed(f, self.block_writes[b]))
                if new_in != IN[b] or new_out != OUT[b]:
                    IN[b], OUT[b] = new_in, new_out
                    changed = True
        self.IN, self.OUT = IN, OUT

    def _expand_aliases(self, raw, depth=0):
        out = list(raw)
        if depth > 3:
            return out
        for f in raw:
            if f[0] == "T":
                a = strip_all(f[1])
                if a is not None and a.get("k") == "DeclRefExpr" and a.get("d") in self.bool_defs:
                    for nf in self._expand_aliases(list(atomise(self.bool_defs[a["d"]], f[2])), depth + 1):
                        # the bool recorded the outcome when it was initialised; it still says something about the
                        # *current* values only if nothing it mentions has been written since.  Outcomes of calls
                        # ("that call succeeded") are kept regardless: rules read them as events, not as state.
                        nodes = [nf[1]] if nf[0] in ("T", "S") else ([nf[1], nf[3]] if nf[0] == "C" else [])
                        stale = False
                        if nf[0] != "NAND":
                            for nn in nodes:
                                sn = strip_all(nn)
                                if nf[0] == "T" and sn is not None and sn.get("k") in ("CallExpr", "CXXMemberCallExpr") \
                                        and sn.get("fn") and not (sn.get("k") == "CXXMemberCallExpr" and
                                                                  (strip(sn["c"][0]) or {}).get("n") in ("size", "empty", "back", "front", "at")):
                                    continue
                                if decl_ids(nn) & self._assigned_anywhere:
                                    stale = True
                        if not stale:
                            out.append(nf)
                # a predicate method of the same object whose whole body is `return <expr over members>;`
                # says what its expression says (is_formatted() <=> take_ != 0)
                body = self._predicate_body(a)
                if body is not None:
                    out.extend(self._expand_aliases(list(atomise(body, f[2])), depth + 1))
        return out

    def _predicate_body(self, a):
        prog = getattr(self.fn, "prog", None)
        if prog is None or a is None or a.get("k") != "CXXMemberCallExpr" or len(a.get("c", [])) != 1:
            return None
        callee = strip(a["c"][0])
        if not callee or callee.get("k") != "MemberExpr" or not callee.get("c"):
            return None
        recv = strip_all(callee["c"][0])
        if recv is None or recv.get("k") != "CXXThisExpr":
            return None
        ts = prog.call_targets(self.fn, a)
        if len(ts) != 1 or ts[0].params or ts[0].unit is not self.fn.unit:
            return None
        stmts = ts[0].body.get("c", []) if ts[0].body and ts[0].body.get("k") == "CompoundStmt" else []
        if len(stmts) != 1 or stmts[0].get("k") != "ReturnStmt" or not stmts[0].get("c"):
            return None
        e = stmts[0]["c"][0]
        # only member reads, constants and operators: no calls, no locals
        for x in walk(e):
            if x.get("k") in CALLISH or (x.get("k") == "DeclRefExpr" and x.get("dk") not in ("EnumConstant",)):
                return None
        return e

    def _weaken(self, fs):
        """Add the NAND facts implied by atomic facts (not a  =>  not (a and b)),
        so that they survive the intersection at joins."""
        for k in self.rep:
            if k[0] == "NAND" and k not in fs:
                na, nb = negate_key(k[1]), negate_key(k[2])
                if (na is not None and na in fs) or (nb is not None and nb in fs):
                    fs.add(k)
        return fs

    def _writes(self, n):
        w = written_decls(n)
        if self.extra_writes is not None:
            w = w | set(self.extra_writes(n))
        return w

    def _add_edge(self, p, s, raw_facts):
        ks = set()
        for f in raw_facts:
            if f[0] == "S":
                k = ("S", canon(f[1]), f[2])
                nodes = [f[1]]
            elif f[0] == "NAND":
                k = fact_key(f)
                nodes = []
                for sub in (f[1], f[2]):
                    nodes += [sub[1]] if sub[0] == "T" else [sub[1], sub[3]]
                    sk = fact_key(sub)
                    if sk not in self.rep:
                        self.rep[sk] = sub
                    nk = negate_key(sk)
                    if nk is not None and nk not in self.rep:
                        self.rep[nk] = (("T", sub[1], not sub[2]) if sub[0] == "T" else ("C", sub[1], NEG[sub[2]], sub[3]))
                        self.vars[nk] = decl_ids(sub[1]) | (decl_ids(sub[3]) if sub[0] == "C" else set())
                        self.shape[nk] = set()
            else:
                k = fact_key(f)
                nodes = [f[1]] if f[0] == "T" else [f[1], f[3]]
            if k not in self.rep:
                self.rep[k] = f
                vs, sh = set(), None
                for n in nodes:
                    vs |= decl_ids(n)
                    so = shape_only_decls(n)
                    sh = so if sh is None else (sh | so)
                # a decl is shape-only for the fact if every mention is shape-only in its node
                self.vars[k] = vs
                self.shape[k] = set(d for d in (sh or set())
                                    if all(d not in decl_ids(n) or d in shape_only_decls(n) for n in nodes))
            ks.add(k)
        if ks:
            self.edge_facts.setdefault((p, s), set()).update(ks)

    def _killed(self, k, writes):
        if not writes:
            return False
        vs = self.vars.get(k, ())
        sh = self.shape.get(k, ())
        for d, elem in writes:
            if d in vs and not (elem and d in sh):
                return True
        return False

    def position(self, node):
        """(block, index) of the CFG element evaluating `node` (or the nearest
        enclosing/inner element)."""
        w = self.fn.where()
        n = node
        if n["i"] in w:
            return w[n["i"]]
        s = strip(n)
        if s is not None and s["i"] in w:
            return w[s["i"]]
        for a in self.fn.ancestors(node):
            if a["i"] in w:
                return w[a["i"]]
        for d in walk(node):
            if d["i"] in w:
                return w[d["i"]]
        return None

    def at(self, node):
        """Fact keys holding whenever `node` is evaluated.  None = unreachable."""
        pos = self.position(node)
        if pos is None:
            return None
        b, idx = pos
        if b not in self.IN or self.IN[b] is None:
            return None
        written = set()
        for e in self.cfg.blocks[b]["e"][:idx]:
            if isinstance(e, int):
                n = self.fn.nodes.get(e)
                if n is not None:
                    written |= self._writes(n)
        return self._close(set(f for f in self.IN[b] if not self._killed(f, written)))

    def _close(self, fs):
        """Unit propagation over NAND facts: not(a and b), a  =>  not b."""
        changed = True
        while changed:
            changed = False
            for k in list(fs):
                if k[0] != "NAND":
                    continue
                for x, y in ((k[1], k[2]), (k[2], k[1])):
                    if x in fs:
                        ny = negate_key(y)
                        if ny is not None and ny not in fs:
                            # representative for the derived fact
                            fs.add(ny)
                            changed = True
        return fs

    def truthy(self, node, expr, want=True):
        fs = self.at(node)
        if fs is None:
            return None
        return ("T", canon(expr), want) in fs

    def cmps(self, node):
        """[(lhs_node, rel, rhs_node)] comparison facts at node, both orientations."""
        fs = self.at(node)
        if fs is None:
            return None
        out = []
        for k in fs:
            if k[0] != "C":
                continue
            f = self.rep[k]
            out.append((f[1], f[2], f[3]))
            out.append((f[3], SWAP[f[2]], f[1]))
        return out

    def truths(self, node):
        fs = self.at(node)
        if fs is None:
            return None
        return [(self.rep[k][1], k[2]) for k in fs if k[0] == "T"]

    def switch_facts(self, node):
        fs = self.at(node)
        if fs is None:
            return None
        return [(self.rep[k][1], k[2]) for k in fs if k[0] == "S"]

    def out_facts(self, b):
        if b not in self.OUT or self.OUT[b] is None:
            return None
        return self._close(set(self.OUT[b]))

    def edge(self, p, s):
        o = self.out_facts(p)
        if o is None:
            return None
        return o | self.edge_facts.get((p, s), set())


def bool_atom(n):
    """Reduce a condition to (atom node, positive?) by peeling !, bool
    conversions, has_value() and operator bool."""
    pos = True
    while True:
        n = strip_all(n)
        if n is None:
            return None, pos
        k = n.get("k")
        if k == "UnaryOperator" and n.get("op") == "!":
            pos = not pos
            n = n["c"][0]
            continue
        if k == "CXXOperatorCallExpr" and n.get("op") == "!":
            pos = not pos
            n = n["c"][1]
            continue
        if k == "CXXMemberCallExpr":
            callee = strip(n["c"][0])
            nm = callee.get("n", "") if callee else ""
            if nm in ("has_value", "operator bool", "good") and callee.get("c"):
                n = callee["c"][0]
                continue
            if nm == "flush" and callee.get("c") and len(n.get("c", [])) == 1:
                # os.flush() returns os itself: a state test on the result is a test of the stream
                n = callee["c"][0]
                continue
            # NB: bad() is not the negation of good(): failbit alone leaves bad() false
            if nm in ("fail", "operator!") and callee.get("c"):
                pos = not pos
                n = callee["c"][0]
                continue
        if k == "BinaryOperator" and n.get("op") in ("==", "!="):
            l, r = strip_all(n["c"][0]), strip_all(n["c"][1])
            for a, b in ((l, r), (r, l)):
                if b.get("k") in ("CXXNullPtrLiteralExpr", "GNUNullExpr") or \
                        (b.get("k") == "IntegerLiteral" and b.get("v") == 0 and "*" in (a.get("t") or "")):
                    if n["op"] == "==":
                        pos = not pos
                    return bool_atom_cont(a, pos)
        if k == "CXXOperatorCallExpr" and n.get("op") in ("==", "!=") and len(n["c"]) == 3:
            l, r = strip_all(n["c"][1]), strip_all(n["c"][2])
            for a, b in ((l, r), (r, l)):
                if b.get("k") == "DeclRefExpr" and b.get("n") == "nullopt" or \
                        (b.get("k") in ("CXXConstructExpr",) and "nullopt" in (b.get("t") or "")):
                    if n["op"] == "==":
                        pos = not pos
                    return bool_atom_cont(a, pos)
        return n, pos


def bool_atom_cont(n, pos):
    a, p2 = bool_atom(n)
    return a, (pos if p2 else not pos)


def cmp_fact(cond, outcome):
    """Normalise `cond == outcome` to (lhs, rel, rhs) when cond is a
    comparison (possibly under !).  Returns None otherwise."""
    pos = bool(outcome)
    n = cond
    while True:
        n = strip_all(n)
        if n is None:
            return None
        if n.get("k") == "UnaryOperator" and n.get("op") == "!":
            pos = not pos
            n = n["c"][0]
            continue
        break
    if n.get("k") == "BinaryOperator" and n.get("op") in NEG:
        rel = n["op"] if pos else NEG[n["op"]]
        l, r = n["c"][0], n["c"][1]
        # `(x = e) == c` is a statement about x (the assignment has happened)
        ls, rs = strip_all(l), strip_all(r)
        if ls is not None and ls.get("k") == "BinaryOperator" and ls.get("op") == "=":
            l = ls["c"][0]
        if rs is not None and rs.get("k") == "BinaryOperator" and rs.get("op") == "=":
            r = rs["c"][0]
        return l, rel, r
    if n.get("k") == "CXXOperatorCallExpr" and n.get("op") in NEG and len(n["c"]) == 3:
        rel = n["op"] if pos else NEG[n["op"]]
        return n["c"][1], rel, n["c"][2]
    return None


def same_expr(a, b):
    """Structural equality of two expressions up to value-preserving wrappers."""
    a, b = strip_all(a), strip_all(b)
    if a is None or b is None:
        return a is b
    ka, kb = a.get("k"), b.get("k")
    if ka != kb:
        return False
    if ka in ("DeclRefExpr", "MemberExpr"):
        if a.get("d") != b.get("d"):
            return False
    for f in ("op", "v", "s", "fn", "n"):
        if a.get(f) != b.get(f):
            return False
    ca, cb = a.get("c", []), b.get("c", [])
    if len(ca) != len(cb):
        return False
    return all(same_expr(x, y) for x, y in zip(ca, cb))


def const_value(n):
    n = strip_all(n)
    if n is None:
        return None
    if "cv" in n:
        return n["cv"]
    if n.get("k") in ("IntegerLiteral", "CharacterLiteral", "CXXBoolLiteralExpr"):
        return n.get("v")
    # look through wrappers for a folded value
    return None


def folded(n):
    """Constant value of an expression if clang folded it (checks wrappers too)."""
    x = n
    while x is not None:
        if "cv" in x:
            return x["cv"]
        if x.get("k") in ("IntegerLiteral", "CharacterLiteral", "CXXBoolLiteralExpr"):
            return x.get("v")
        if x.get("k") in ("ImplicitCastExpr", "ParenExpr", "ExprWithCleanups", "ConstantExpr",
                          "CStyleCastExpr", "CXXStaticCastExpr", "CXXFunctionalCastExpr") and x.get("c"):
            x = x["c"][0]
            continue
        return None
    return None


def leaves_function(fn, block):
    """True if every path from `block` ends in a throw/noreturn or a return
    without passing any other statement of interest is not decided here; this
    helper only tells whether the block itself ends by leaving."""
    b = fn.cfg.blocks[block]
    return fn.cfg.exit in fn.cfg.succ[block] or b.get("noreturn")


def block_paths_reach(cfg, start, targets, avoid=()):
    """Is any block in `targets` reachable from `start` without entering a
    block in `avoid`?"""
    seen, st = set(), [start]
    while st:
        b = st.pop()
        if b in seen or b < 0 or b in avoid:
            continue
        seen.add(b)
        if b in targets:
            return True
        st.extend(cfg.succ[b])
    return False


class PathStates:
    """Small path-sensitive forward analysis: the state at a point is the set
    of abstract tuples that can reach it (powerset domain, join = union).
      elem_tf(node, tup) -> tup            effect of evaluating one CFG element
      edge_tf(fact_keys, tup) -> tup|None  effect of taking a branch edge whose
                                           normalised facts are fact_keys
                                           (None = edge infeasible for tup)
    Terminates because the tuple universe is finite (callers keep it tiny)."""

    def __init__(self, fn, init, elem_tf, edge_tf=None, guards=None):
        self.fn = fn
        self.cfg = fn.cfg
        self.elem_tf = elem_tf
        self.edge_tf = edge_tf
        self.g = guards or Guards(fn)
        reach = self.cfg.reachable()
        self.IN = {b: set() for b in reach}
        self.IN[self.cfg.entry] = {init}
        work = [self.cfg.entry]
        self.OUT = {}
        seen_out = {}
        while work:
            b = work.pop()
            st = set(self.IN[b])
            for n in element_nodes(fn, b):
                st = set(elem_tf(n, t) for t in st)
            if seen_out.get(b) == st:
                continue
            seen_out[b] = set(st)
            self.OUT[b] = st
            for s in self.cfg.succ[b]:
                if s < 0 or s not in reach:
                    continue
                ef = self.g.edge_facts.get((b, s), set())
                new = set()
                for t in st:
                    t2 = edge_tf(ef, t) if edge_tf else t
                    if t2 is not None:
                        new.add(t2)
                if not new <= self.IN[s]:
                    self.IN[s] |= new
                    work.append(s)

    def before(self, node):
        pos = self.g.position(node)
        if pos is None:
            return None
        b, idx = pos
        if b not in self.IN:
            return None
        st = set(self.IN[b])
        for e in self.cfg.blocks[b]["e"][:idx]:
            if isinstance(e, int):
                n = self.fn.nodes.get(e)
                if n is not None:
                    st = set(self.elem_tf(n, t) for t in st)
        return st


def must_hold_at(fn, transfer, edge_gen=None):
    """Generic forward must-analysis of one Boolean property.  transfer(node) -> True (established),
    False (destroyed) or None (unchanged); edge_gen(p, s) -> True if taking CFG edge p->s establishes it.
    Returns at(node) -> bool (property certainly holds when node is evaluated) or None (unreachable)."""
    cfg = fn.cfg
    out = {b: True for b in cfg.blocks}
    inn = {b: True for b in cfg.blocks}

    def run_block(b, st, upto=None):
        for e in cfg.blocks[b]["e"][:upto]:
            x = fn.nodes.get(e) if isinstance(e, int) else None
            if x is not None:
                t = transfer(x)
                if t is not None:
                    st = t
        return st
    reach = cfg.reachable()
    changed = True
    while changed:
        changed = False
        for b in cfg.blocks:
            if b not in reach:
                continue        # dead code (e.g. after a throw) constrains nothing
            preds = [p for p in cfg.pred[b] if p in reach]
            if b == cfg.entry or not preds:
                i = False
            else:
                i = all(out[p] or (edge_gen is not None and edge_gen(p, b)) for p in preds)
            st = run_block(b, i)
            if i != inn[b] or st != out[b]:
                inn[b], out[b] = i, st
                changed = True
    where = fn.where()

    def at(node):
        pos = None
        n = node
        if n["i"] in where:
            pos = where[n["i"]]
        else:
            for a in fn.ancestors(node):
                if a["i"] in where:
                    pos = where[a["i"]]
                    break
            if pos is None:
                for d in walk(node):
                    if d["i"] in where:
                        pos = where[d["i"]]
                        break
        if pos is None:
            return None
        return run_block(pos[0], inn[pos[0]], pos[1])
    return at


def may_states(fn, init, step, edge=None):
    """Generic forward may-analysis over small finite state sets.  init: iterable of states at function entry;
    step(state, node) -> iterable of successor states for one CFG element; edge(p, s, state) -> iterable of states
    on the CFG edge p->s (default: unchanged).  Returns (inn, at): inn[block] and at(node) = set of states that
    can hold just before node is evaluated (None if node is not in the CFG)."""
    cfg = fn.cfg
    reach = cfg.reachable()
    inn = {b: set() for b in cfg.blocks}
    inn[cfg.entry] = set(init)
    work = [cfg.entry]

    def run(b, st, upto=None):
        for e in cfg.blocks[b]["e"][:upto]:
            x = fn.nodes.get(e) if isinstance(e, int) else None
            if x is not None:
                nxt = set()
                for s_ in st:
                    nxt |= set(step(s_, x))
                st = nxt
        return st
    while work:
        b = work.pop()
        st = run(b, set(inn[b]))
        for s_ in cfg.succ[b]:
            if s_ < 0 or s_ not in reach:
                continue
            ns = set()
            for x in st:
                ns |= set(edge(b, s_, x)) if edge is not None else {x}
            if not ns <= inn[s_]:
                inn[s_] |= ns
                work.append(s_)
    where = fn.where()

    def at(node):
        pos = where.get(node["i"])
        if pos is None:
            for a in fn.ancestors(node):
                if a["i"] in where:
                    pos = where[a["i"]]
                    break
        if pos is None:
            return None
        return run(pos[0], set(inn[pos[0]]), pos[1])
    at.out = lambda b: run(b, set(inn[b]))
    return inn, at
