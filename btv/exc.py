"""May-throw analysis: which exception classes can escape each function.

Sources: explicit throw expressions (class of the operand), rethrows, and a
table of library entry points that throw on input-controlled conditions.
Propagation: call graph (virtual calls -> every overrider; functions whose
address is taken in a function are treated as callable from it; lambdas are
attributed to the function that lexically contains them).  Filtering: the try
statements lexically enclosing a site in the same function."""
from .model import strip, strip_all, walk, notpl, is_call

STD_ANCESTORS = {
    "std::invalid_argument": ["std::invalid_argument", "std::logic_error", "std::exception"],
    "std::out_of_range": ["std::out_of_range", "std::logic_error", "std::exception"],
    "std::length_error": ["std::length_error", "std::logic_error", "std::exception"],
    "std::bad_optional_access": ["std::bad_optional_access", "std::exception"],
    "std::bad_function_call": ["std::bad_function_call", "std::exception"],
    "std::ios_base::failure": ["std::ios_base::failure", "std::system_error", "std::runtime_error", "std::exception"],
    "std::runtime_error": ["std::runtime_error", "std::exception"],
    "std::logic_error": ["std::logic_error", "std::exception"],
    "std::exception": ["std::exception"],
}

LIB_THROWERS = {}
for _n in ("stoi", "stol", "stoul", "stoll", "stoull", "stof", "stod", "stold"):
    LIB_THROWERS["std::" + _n] = {"std::invalid_argument", "std::out_of_range"}
    LIB_THROWERS["std::__cxx11::" + _n] = {"std::invalid_argument", "std::out_of_range"}
LIB_THROWERS["std::optional::value"] = {"std::bad_optional_access"}
for _c in ("vector", "array", "map", "deque", "basic_string", "__cxx11::basic_string", "unordered_map"):
    LIB_THROWERS["std::%s::at" % _c] = {"std::out_of_range"}


class ExcTypes:
    def __init__(self):
        self.anc = dict(STD_ANCESTORS)

    def add(self, cls, anc):
        cls = notpl(cls)
        if cls not in self.anc:
            self.anc[cls] = [notpl(a) for a in anc] or [cls]

    def ancestors(self, cls):
        return self.anc.get(cls, [cls])

    def caught_by(self, cls, handler):
        """handler: {'all':True} or {'cls': qualified class}"""
        if handler.get("all"):
            return True
        if cls.startswith("<ptr>"):
            return False
        return handler.get("cls") in self.ancestors(cls)


def _handlers(trystmt):
    hs = []
    for c in trystmt.get("c", [])[1:]:
        if c.get("k") == "CXXCatchStmt":
            if c.get("catch_all"):
                hs.append({"all": True, "node": c})
            else:
                hs.append({"cls": notpl(c.get("caught_cls") or c.get("caught_t") or "?"), "node": c})
    return hs


def enclosing_tries(fn, node):
    """Innermost-first list of CXXTryStmt whose *body* contains node."""
    out = []
    child = node
    for a in fn.ancestors(node):
        if a.get("k") == "CXXTryStmt" and a.get("c") and a["c"][0] is child:
            out.append(a)
        child = a
    return out


def enclosing_catch(fn, node):
    child = node
    for a in fn.ancestors(node):
        if a.get("k") == "CXXCatchStmt":
            return a, fn.parent(a)
        child = a
    return None, None


class MayThrow:
    def __init__(self, prog):
        self.prog = prog
        self.types = ExcTypes()
        self.sets = {f.uid: set() for f in prog.functions.values()}
        self.why = {}    # (uid, cls) -> description of one origin
        self._lambdas_of = {}
        for f in prog.functions.values():
            if f.parent_key:
                for p in prog.by_key.get(f.parent_key, []):
                    if p.file == f.file or len(prog.by_key.get(f.parent_key, [])) == 1:
                        self._lambdas_of.setdefault(p.uid, []).append(f)
        self._sites = {}
        for f in prog.functions.values():
            self._sites[f.uid] = self._collect_sites(f)
        self._solve()

    # a site: (node, kind, payload)  kind in throw / rethrow / call / lib / lambda
    def _collect_sites(self, f):
        sites = []
        for n in f.walk():
            k = n.get("k")
            if k == "CXXThrowExpr":
                if n.get("rethrow"):
                    sites.append((n, "rethrow", None))
                else:
                    cls = notpl(n.get("thrown_cls") or n.get("thrown_t") or "?")
                    if n.get("thrown_ptr"):
                        cls = "<ptr>" + cls
                    else:
                        self.types.add(cls, n.get("thrown_anc", []))
                    sites.append((n, "throw", cls))
            elif is_call(n):
                q = notpl(n.get("q") or "")
                if q in LIB_THROWERS:
                    sites.append((n, "lib", (q, LIB_THROWERS[q])))
                else:
                    sites.append((n, "call", None))
            elif k == "DeclRefExpr" and n.get("dk") in ("Function", "CXXMethod") and n.get("fn"):
                p = f.parent(n)
                # address taken (not the callee operand of a direct call)
                pp = p
                while pp is not None and pp.get("k") in ("ImplicitCastExpr", "ParenExpr", "UnaryOperator"):
                    pp2 = f.parent(pp)
                    if pp2 is None:
                        break
                    last = pp
                    pp = pp2
                if pp is not None and is_call(pp) and pp.get("fn") == n.get("fn"):
                    continue
                sites.append((n, "addr", n.get("fn")))
        for lam in self._lambdas_of.get(f.uid, []):
            # find the LambdaExpr node to position the lambda's effects
            node = None
            for n in f.walk():
                if n.get("k") == "LambdaExpr" and n.get("fn") == lam.key:
                    node = n
                    break
            sites.append((node or f.body, "lambda", lam))
        return sites

    def _filter(self, f, node, clss):
        """Remove from clss what the try statements enclosing node catch."""
        out = set(clss)
        if node is None:
            return out
        for t in enclosing_tries(f, node):
            hs = _handlers(t)
            out = set(c for c in out if not any(self.types.caught_by(c, h) for h in hs))
            if not out:
                break
        return out

    def site_throws(self, f, site):
        node, kind, payload = site
        if kind == "throw":
            return {payload}
        if kind == "lib":
            return set(payload[1])
        if kind == "call":
            out = set()
            for t in self.prog.call_targets(f, node):
                out |= self.sets[t.uid]
            return out
        if kind == "addr":
            out = set()
            for t in self.prog.resolve(f, payload):
                out |= self.sets[t.uid]
            return out
        if kind == "lambda":
            return set(self.sets[payload.uid])
        if kind == "rethrow":
            c, t = enclosing_catch(f, node)
            if c is None or t is None:
                return set()
            # what the try body could deliver to this handler
            h = {"all": True} if c.get("catch_all") else {"cls": notpl(c.get("caught_cls") or "?")}
            body = t["c"][0]
            got = set()
            ids = set(x["i"] for x in walk(body))
            for s in self._sites[f.uid]:
                if s[0] is not None and s[0]["i"] in ids and s[1] != "rethrow":
                    for cls in self._escaping_to(f, s, t):
                        if self.types.caught_by(cls, h):
                            got.add(cls)
            return got
        return set()

    def _escaping_to(self, f, site, upto_try):
        """Classes raised at site that reach the handlers of upto_try (i.e.
        not caught by inner tries)."""
        clss = self.site_throws(f, site)
        for t in enclosing_tries(f, site[0]):
            if t is upto_try:
                return clss
            hs = _handlers(t)
            clss = set(c for c in clss if not any(self.types.caught_by(c, h) for h in hs))
        return clss

    def _solve(self):
        changed = True
        rounds = 0
        while changed and rounds < 100:
            changed = False
            rounds += 1
            for f in self.prog.functions.values():
                cur = self.sets[f.uid]
                for site in self._sites[f.uid]:
                    raised = self.site_throws(f, site)
                    if not raised:
                        continue
                    esc = self._filter(f, site[0], raised) if site[1] != "lambda" or site[0] is not f.body else raised
                    for c in esc:
                        if c not in cur:
                            cur.add(c)
                            self.why[(f.uid, c)] = self._describe(f, site)
                            changed = True

    def _describe(self, f, site):
        node, kind, payload = site
        loc = f.loc(node) if node is not None else f.relfile()
        if kind == "throw":
            return "throw at %s" % loc
        if kind == "lib":
            return "%s at %s" % (payload[0], loc)
        if kind == "call":
            return "call of %s at %s" % (notpl(node.get("q") or "?"), loc)
        if kind == "lambda":
            return "lambda %s" % payload.q
        return "%s at %s" % (kind, loc)

    def explain(self, f, cls, depth=0):
        """Chain of origins for class cls escaping f."""
        out = []
        seen = set()
        cur = f
        while cur is not None and depth < 12:
            w = self.why.get((cur.uid, cls))
            if not w or (cur.uid, cls) in seen:
                break
            seen.add((cur.uid, cls))
            out.append("%s: %s" % (cur.qn, w))
            nxt = None
            for site in self._sites[cur.uid]:
                if site[1] in ("call", "addr", "lambda") and cls in self.site_throws(cur, site):
                    if site[1] == "lambda":
                        nxt = site[2]
                    elif site[1] == "call":
                        ts = [t for t in self.prog.call_targets(cur, site[0]) if cls in self.sets[t.uid]]
                        nxt = ts[0] if ts else None
                    else:
                        ts = [t for t in self.prog.resolve(cur, site[2]) if cls in self.sets[t.uid]]
                        nxt = ts[0] if ts else None
                    if nxt is not None:
                        break
            cur = nxt
            depth += 1
        return out
