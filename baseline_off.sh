#!/bin/sh
# Builds /repo (no verification guard exists: the checks compile nothing into
# the tools) in a scratch directory and runs the pinned suite there.
D=$(mktemp -d "${TMPDIR:-/var/tmp}/btv-base.XXXXXX") || exit 2
trap 'rm -rf "$D"' EXIT
cmake -S /repo -B "$D" -G Ninja -DCMAKE_BUILD_TYPE=RelWithDebInfo >/dev/null || exit 2
cmake --build "$D" >/dev/null || exit 2
ctest --test-dir "$D" -j8 --timeout 900
