// R-C15-4 fixture (good)
#include <optional>
namespace DFS {
class VolumeSelector {
public:
  VolumeSelector& operator=(const VolumeSelector&);
private:
  unsigned surface_;
  std::optional<char> subvolume_;
};
VolumeSelector& VolumeSelector::operator=(const VolumeSelector& v)
{
  surface_ = v.surface_;
  subvolume_ = v.subvolume_;
  return *this;
}
}
