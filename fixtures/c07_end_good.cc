// R-C07-10 fixtures: every end access is covered.
#include <string>
#include <vector>
#include <deque>

std::string with_slash(std::string dir)
{
  if (dir.empty())
    return "./";
  if (dir.back() != '/')
    dir.push_back('/');
  return dir;
}

int next_start(const std::vector<std::vector<int>>& cats, unsigned c)
{
  for (unsigned next = c + 1; next < cats.size(); ++next)
    {
      if (!cats[next].empty())
	return cats[next].back();
    }
  return 0;
}

std::vector<std::vector<int>> grouped(const std::vector<int>& in)
{
  std::vector<std::vector<int>> result;
  for (int g = 0; g < 2; ++g)
    {
      result.push_back(std::vector<int>());
      for (int x : in)
	result.back().push_back(x + g);	// appended in the enclosing iteration
    }
  return result;
}

std::deque<std::string> extensions(std::deque<std::string> parts)
{
  if (parts.size() > 0)
    parts.pop_front();
  return parts;
}

class Frags
{
public:
  explicit Frags(bool wide)
  {
    const unsigned n = wide ? 2u : 1u;
    for (unsigned i = 0; i < n * 2u; ++i)
      f_.push_back(static_cast<int>(i));
  }
  int primary() const { return f_.front(); }
private:
  std::vector<int> f_;
};

int use(bool w)
{
  Frags f(w);
  return f.primary();
}
