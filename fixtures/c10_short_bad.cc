// R-C10-9 fixture (bad): a short read is turned into "nothing"
#include <algorithm>
#include <cstdio>
#include <vector>
struct Reader {
  FILE* f_;
  std::vector<unsigned char> read(unsigned long pos, unsigned long len)
  {
    std::vector<unsigned char> buf;
    if (0 != fseek(f_, static_cast<long>(pos), SEEK_SET))
      return buf;
    const unsigned long chunk_size = 65536;
    while (buf.size() < len)
      {
	const unsigned long old_size = buf.size();
	const unsigned long want = std::min(chunk_size, len - old_size);
	buf.resize(old_size + want);
	const size_t got = fread(buf.data() + old_size, 1, want, f_);

	if (got < want)
	  return std::vector<unsigned char>();
      }
    return buf;
  }
};
std::vector<unsigned char> use(Reader& r) { return r.read(0, 100000); }
