#include <optional>
std::optional<int> get(int);
struct P { int a; };
std::optional<P> getp(int);
int use_checked(int k) {
  auto o = get(k);
  if (!o) return -1;
  int r = *o;
  auto p = getp(k);
  if (p.has_value() && p->a > 3) r += p->a;
  std::optional<int> q;
  q = 4;
  r += *q;
  while (auto z = get(r)) { r -= *z; }
  return r;
}
