#include <iostream>
#include <iterator>
#include <algorithm>
#include <string>
static bool run(const std::string& s) {
  std::copy(s.begin(), s.end(), std::ostreambuf_iterator<char>(std::cout));   // seeded: bypasses badbit
  return true;
}
int main(int argc, char** argv) {
  if (argc < 2) return 1;
  return run(argv[1]) ? 0 : 1;        // seeded: no flush, no test
}
