#include <exception>
#include <stdexcept>
struct Bad : public std::runtime_error { Bad() : std::runtime_error("bad") {} };
void f(int x) { if (x) throw Bad(); }
void g(int x) { try { f(x); } catch (...) { throw; } }
