// R-C06-2 fixture: decisions on the whole CRC register.
#include <cstdint>
#include <vector>
namespace DFS {
class CRC16Base {
 public:
  explicit CRC16Base(uint16_t init) : crc_(init) {}
  void update(const uint8_t* s, const uint8_t* e) { for (; s < e; ++s) crc_ = ((crc_ << 1) ^ *s) & 0xFFFF; }
  unsigned long get() const { return crc_; }
 private:
  unsigned long crc_;
};
class CCITT_CRC16 : public CRC16Base { public: CCITT_CRC16() : CRC16Base(0xFFFF) {} };
}
bool check_block(const std::vector<uint8_t>& data)
{
  DFS::CCITT_CRC16 crc;
  crc.update(data.data(), data.data() + data.size());
  if (crc.get())
    return false;
  return true;
}
static unsigned long low_crc(const std::vector<uint8_t>& data)
{
  DFS::CCITT_CRC16 crc;
  crc.update(data.data(), data.data() + data.size());
  return crc.get();
}
bool check_id(const std::vector<uint8_t>& id)
{
  const auto c = low_crc(id);
  if (c)
    return false;
  return true;
}
