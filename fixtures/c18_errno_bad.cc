// R-C18-8 fixture (bad): errno decides without having been cleared here
#include <cerrno>
#include <cstdio>
#include <vector>
std::vector<char> read_some(FILE* f, size_t n)
{
  std::vector<char> buf(n);
  const size_t got = fread(buf.data(), 1, n, f);
  buf.resize(got);
  if (got < n && errno)
    buf.clear();
  return buf;
}
