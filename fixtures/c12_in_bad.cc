// R-C12-3 fixture: an output name that can coincide with an input image
#include <fstream>
#include <string>
bool is_image(const std::string& ext) { return ext == "ssd" || ext == "gz"; }   // (named img_load in the repo)
bool write_body(const std::string& dest_dir, const std::string& safe_name)
{
  const std::string body = dest_dir + safe_name;	// may be <dest>/X.ssd
  std::ofstream out(body, std::ofstream::out);
  out << "x";
  out.close();
  return out.good();
}
