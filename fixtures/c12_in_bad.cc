// R-C12-3 fixture: an output name that can coincide with an input image
#include <fstream>
#include <string>
namespace DFS { struct CatalogEntry { std::string name() const; char directory() const; }; }
bool is_image(const std::string& ext) { return ext == "ssd" || ext == "gz"; }   // (named img_load in the repo)
bool write_body(const std::string& dest_dir, const DFS::CatalogEntry& e)
{
  const std::string safe_name = e.name();
  const std::string body = dest_dir + safe_name;	// may be <dest>/X.ssd
  std::ofstream out(body, std::ofstream::out);
  out << "x";
  out.close();
  return out.good();
}

// R-C12-4: a backslash accepted as the trailing separator
#include <vector>
std::string span_name(const std::string& dir, unsigned n) { return dir + "unused_" + std::to_string(n) + ".bin"; }
bool extract_to(const std::vector<std::string>& args)
{
  std::string dest_dir(args[1]);
  if (dest_dir.empty())
    return false;
  const char last = dest_dir.back();
  if (last != '/' && last != '\\')
    dest_dir.push_back('/');
  return !span_name(dest_dir, 2).empty();	// BAD: dest_dir may end in a backslash
}
