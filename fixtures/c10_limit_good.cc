// R-C10-11 fixture (good)
#include <cstdio>
#include <stdexcept>
extern "C" int inflate(void*, int);
void unpack(void* strm, FILE* out, const unsigned char* buf)
{
  int zerr = 0;
  unsigned long total_written = 0;
  while (zerr != 1)
    {
      zerr = inflate(strm, 0);
      const size_t n = fwrite(buf, 1, 512, out);
      if (n != 512)
	throw std::runtime_error("write");
      total_written += n;
    }
  (void)total_written;
}
