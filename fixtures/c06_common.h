#include <vector>
#include <optional>
#include <string>
#include <algorithm>
#include <array>
namespace Track {
typedef unsigned char byte;
struct SectorAddress { unsigned char cylinder, head, record; bool operator==(const SectorAddress& a) const { return cylinder == a.cylinder && head == a.head && record == a.record; } };
struct Sector { SectorAddress address; std::vector<byte> data; unsigned char crc[2]; };
}
bool next_sync(size_t& pos);
bool copy_bytes(size_t& pos, size_t n, std::vector<Track::byte>* out);
bool check_crc_with_a1s(const std::vector<Track::byte>& data, std::string& error);
bool decode_sector_address_and_size(const Track::byte* hdr, Track::SectorAddress* a, int* size, std::string& error);
namespace DFS { typedef std::array<unsigned char, 256> SectorBuffer;
class AbstractDrive { public: virtual ~AbstractDrive() {} virtual std::optional<SectorBuffer> read_block(unsigned long lba) = 0; }; }
