#include <stdbool.h>
#include <stdio.h>
static bool premature_eol(unsigned tok) { fprintf(stderr, "Unexpected end-of-line after 0x%02X\n", tok); return false; }
static bool handle_ext(unsigned char intro, const char** output, const unsigned char** input, unsigned char* len, const char* const* map) {
  unsigned char uch;
  if (!*len) return premature_eol(intro);
  uch = **input; ++*input; --*len;
  *output = map[uch];
  return true;
}
static bool handle_num(const unsigned char** input, unsigned char* len) {
  if (*len < 3) { fprintf(stderr, "end-of-line in the middle of a line number\n"); return false; }
  const unsigned char* p = (const unsigned char*)*input;
  printf("%u", p[0] + p[1] + p[2]);
  (*input) += 3; *len = (unsigned char)(*len - 3u);
  return true;
}
bool decode_line(const char* data, unsigned char orig_len, const char* const* map) {
  const unsigned char* p = (const unsigned char*)data; unsigned char len = orig_len; const char* out;
  static char buf[1024];
  while (len) { unsigned char uch = *p++; --len; if (uch == 0x8D) { if (!handle_num(&p, &len)) return false; } else if (!handle_ext(uch, &out, &p, &len, map)) return false; }
  if ((orig_len > 0) && buf[orig_len - 1] != 0x0D) return false;
  return true;
}
