#include <vector>
#include <map>
namespace DFS { typedef unsigned char byte;
class FileAccess { public: virtual ~FileAccess() {} virtual std::vector<byte> read(unsigned long offset, unsigned long len) = 0; }; }
static unsigned long le_quad(const DFS::byte* d) { return d[0] | (d[1] << 8u) | (d[2] << 16u) | (d[3] << 24u); }
struct TD { TD(unsigned long s) : size(s) {} unsigned long size; };
int scan(DFS::FileAccess* f, unsigned last) {
  int n = 0;
  for (unsigned long pos = 0; ; pos += 11) {
    std::vector<DFS::byte> raw = f->read(pos, 11);
    if (raw.size() < 11) { ++n; }          // seeded: notices, but does not leave the loop
    else if (raw[0] == last) break;
  }
  return n;
}
struct Impl : DFS::FileAccess {
  std::vector<DFS::byte> read(unsigned long, unsigned long len) override { std::vector<DFS::byte> b; b.resize(len); return b; }
};
int tracks(DFS::FileAccess* f) {
  std::vector<DFS::byte> h = f->read(0, 8);
  if (h.size() < 8) return -1;
  TD td(le_quad(h.data() + 4));
  std::vector<DFS::byte> t = f->read(16, td.size);   // seeded: 32-bit file field reaches resize(len)
  return (int)t.size();
}
