// Minimal stand-ins for the repo's bounded-access family (fixture only).
#include <optional>
#include <vector>
#include <array>
namespace DFS {
typedef std::array<unsigned char, 256> SectorBuffer;
class DataAccess {
 public:
  virtual ~DataAccess() {}
  virtual std::optional<SectorBuffer> read_block(unsigned long lba) = 0;
};
}
