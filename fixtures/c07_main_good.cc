#include <string>
#include <stdexcept>
#include <iostream>
#include <cstdlib>
static int parse(const char* s) { try { return std::stoi(s); } catch (std::invalid_argument&) { return -1; } catch (std::out_of_range&) { return -2; } }
static int lookup(int k) { if (k > 3) throw std::out_of_range("k"); return k; }
enum class Fmt { A, B, C };
const char* name(Fmt f) { switch (f) { case Fmt::A: return "a"; case Fmt::B: return "b"; case Fmt::C: return "c"; } abort(); }
static int status(bool ok) { std::cout.flush(); if (!std::cout) return 1; return ok ? 0 : 1; }
int main(int argc, char** argv) {
  int n = parse(argv[1]);
  try { n += lookup(n); }
  catch (std::exception& e) { std::cerr << e.what() << "\n"; return 1; }
  std::cout << name(Fmt::A);
  return status(n != 0);
}
