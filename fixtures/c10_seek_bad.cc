// R-C10-7 fixture: total_in used as a file offset although the stream is reset per member
#include <cstdio>
#include <cstring>
#include <zlib.h>
void members(FILE* f)
{
  z_stream stream; memset(&stream, 0, sizeof(stream));
  inflateInit2(&stream, 16 + MAX_WBITS);
  int zerr = Z_OK;
  unsigned char in[512], out[1024];
  while (zerr != Z_STREAM_END)
    {
      stream.avail_in = (unsigned)fread(in, 1, sizeof in, f); stream.next_in = in;
      stream.next_out = out; stream.avail_out = sizeof out;
      zerr = inflate(&stream, Z_NO_FLUSH);
      if (zerr == Z_STREAM_END && stream.avail_in != 0)
	{
	  fseek(f, static_cast<long>(stream.total_in), SEEK_SET);	// BAD
	  inflateReset(&stream);
	  zerr = Z_OK;
	}
    }
  inflateEnd(&stream);
}
