// R-C11-2 fixture: a helper that only restores the format flags
#include <iostream>
class flag_saver {
 public:
  explicit flag_saver(std::ostream& os) : os_(os), saved_(os.flags()), state_(os.rdstate()) {}
  ~flag_saver() { os_.flags(saved_); }
 private:
  std::ostream& os_; std::ostream::fmtflags saved_; std::ostream::iostate state_;
};
bool show(int v) { flag_saver keep(std::cout); std::cout << std::hex << v << "\n"; return true; }

#include <sstream>
#include <fstream>
bool dump(std::ostream& os, int v) { os << v << "\n"; return true; }
bool save(std::ofstream& outfile, const std::string& body) { outfile.write(body.data(), static_cast<std::streamsize>(body.size())); outfile.close(); return outfile.good(); }
