// R-C02-7 fixture (good)
#include <optional>
#include <sstream>
#include <string>
struct Catalog { std::optional<unsigned char> sequence_number() const; std::string title() const; };
static std::string title_and_cycle(const std::string& title, std::optional<int> cycle)
{ std::ostringstream os; os << title; if (cycle) os << '(' << *cycle << ')'; return os.str(); }
std::string show(const Catalog& catalog) { return title_and_cycle(catalog.title(), catalog.sequence_number()); }
