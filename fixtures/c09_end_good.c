/* R-C09-8 fixture (good) */
#include <stdio.h>
#include <stdbool.h>
static bool premature_eof(FILE* f) { fprintf(stderr, "premature end-of-file at %ld\n", ftell(f)); return false; }
static bool decode_line(unsigned char len, const char* data) { return fwrite(data, 1, len, stdout) == len; }
static bool expect_char(FILE* f, unsigned char want) { int ch; if ((ch = getc(f)) == EOF) return premature_eof(f); return (unsigned char)ch == want; }
bool decode_file(FILE* f) {
  static char buf[1024];
  bool empty = true;
  for (;;) {
    int ch; unsigned char len, lo, hi; size_t nread;
    if ((ch = getc(f)) == EOF) { if (empty) return true; else return premature_eof(f); }
    empty = false;
    len = (unsigned char)ch;
    if (len == 0) { if (!expect_char(f, 0xFF) || !expect_char(f, 0xFF)) return false; return true; }
    if ((ch = getc(f)) == EOF) return premature_eof(f);
    lo = (unsigned char)ch;
    if ((ch = getc(f)) == EOF) return premature_eof(f);
    hi = (unsigned char)ch;
    nread = fread(buf, 1, len, f);
    if (nread < len) return premature_eof(f);
    if (!decode_line(len, buf)) return false;
    (void)lo; (void)hi;
  }
}
