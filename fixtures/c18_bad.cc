#include <iostream>
#include <sstream>
#include <string>
#include <vector>
#include <cstdlib>
namespace DFS { bool verbose = false; }
static int count(const std::vector<int>& v, bool verbose) {
  int n = 0;
  for (int x : v) {
    if (x < 0) {
      if (verbose) { std::cerr << "negative " << x << "\n"; continue; }     // seeded: only skipped when verbose
    }
    ++n;
  }
  return n;
}
int lib_identify(const std::vector<int>& v) { std::cout << "probing\n"; return count(v, DFS::verbose); }  // seeded: library writes stdout
int info_width() { const char* c = std::getenv("COLUMNS"); return c ? std::atoi(c) : 80; }   // seeded: second consumer
// seeded (R-C18-6): std::stoi's out_of_range leaves the function that reads COLUMNS
#include <stdexcept>
#include <string>
int cat_columns_throwing()
{
  const char* c = std::getenv("COLUMNS");
  if (!c) return 80;
  try { return std::stoi(c); } catch (std::invalid_argument&) { return 80; }
}
