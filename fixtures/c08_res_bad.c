/* R-C08-8 / R-C08-4 fixtures: use after destroy, and a library call longer than its array */
#include <stdio.h>
#include <string.h>
#include <stdbool.h>
struct decoder;
struct decoder *new_decoder(unsigned dialect, unsigned listo);
void destroy_decoder(struct decoder *);
bool decode_file(struct decoder *d, const char *name, FILE *f);
int run_all(int argc, char **argv)
{
  int i, status = 0;
  struct decoder *dec = new_decoder(0, 7);	/* created once ... */
  if (0 == dec)
    return 1;
  for (i = 1; i < argc; ++i)
    {
      FILE *f = fopen(argv[i], "rb");
      if (!f) { status = 1; continue; }
      if (!decode_file(dec, argv[i], f))	/* BAD on the second pass: dec was destroyed */
	status = 1;
      fclose(f);
      destroy_decoder(dec);			/* ... destroyed per file */
      dec = NULL;
    }
  return status;
}
bool pad_out(int *indent)
{
  char pad[510];
  if (*indent > 0)
    {
      const size_t width = (size_t)*indent;
      memset(pad, ' ', width);			/* BAD: width is not bounded by sizeof pad */
      if (fwrite(pad, 1, width, stdout) != width)
	return false;
    }
  return true;
}
