#include <array>
#include <optional>
#include <algorithm>
namespace DFS { typedef unsigned char byte; typedef std::array<byte, 256> SectorBuffer;
struct DataAccess { virtual std::optional<SectorBuffer> read_block(unsigned long lba) = 0; }; }
namespace {
bool smells_like_watford(DFS::DataAccess& access, const DFS::SectorBuffer& buf1) {
  const DFS::byte last_catalog_entry_pos = buf1[0x05];
  unsigned pos = 8;
  for (pos = 8; pos <= last_catalog_entry_pos; pos += 8) {
    const unsigned int start_sector = buf1[pos + 7] | ((buf1[pos + 6] & 3u) << 8);
    if (start_sector == 2) return false;
  }
  auto got = access.read_block(2);
  if (!got) return false;
  return std::all_of(got->cbegin(), got->cbegin() + 8, [](DFS::byte b) { return b == 0xAA; });
}
}
bool use(DFS::DataAccess& a, const DFS::SectorBuffer& b) { return smells_like_watford(a, b); }

// R-C13-5: the two-sided flag consulted for HDFS only
namespace DFS { enum class Format { HDFS, DFS, WDFS, OpusDDOS }; }
bool single_sided_filesystem(DFS::Format fmt, const unsigned char *sec1)
{
  if (fmt != DFS::Format::HDFS)
    return true;
  if (sec1[6] & 4)
    return false;
  return true;
}
