#include <getopt.h>
#include <string.h>
#include <stdio.h>
#include <stdlib.h>
static int dump(const char* a) { return strcmp(a, "-") == 0; }
static int wrapped(int argc, char** argv) {
  int longindex, opt, listo = 0, exitval = 0;
  const struct option opts[] = {
    { "listo", 1, NULL, 'l' },
    { "dump", 1, NULL, 'D' },
    { "help", 0, NULL, 'h' },
    { NULL, 0, NULL, 0 },
  };
  while ((opt = getopt_long(argc, argv, "+l:D:", opts, &longindex)) != -1) {
    switch (opt) {
    case '?': return 1;
    case 'D': if (!dump(optarg)) return 1; return 0;
    case 'h': puts("help"); return 0;
    case 'l': listo = atoi(optarg); break;
    }
  }
  if (listo > 7) { if (exitval < 1) exitval = 1; }
  return exitval;
}
int main(int argc, char** argv) { int exitval = wrapped(argc, argv); if (fflush(stdout)) exitval = 1; return exitval; }
