// R-C06-6 fixture: the size check is skipped for all but the first sector
#include <optional>
#include <string>
#include <vector>
struct SectorAddress { unsigned char cylinder, head, record; };
struct Sector { SectorAddress address; std::vector<unsigned char> data; };
namespace DFS {
bool check_track_is_supported(const std::vector<Sector>& track_sectors, unsigned track, unsigned side,
			      unsigned sector_bytes, std::string& error)
{
  std::optional<int> prev_rec_num;
  for (const Sector& sect : track_sectors)
    {
      if (sect.address.head != side) { error = "side"; return false; }
      if (sect.address.cylinder != track) { error = "track"; return false; }
      if (!prev_rec_num && sect.data.size() != sector_bytes)	// BAD: only the first sector
	{ error = "size"; return false; }
      prev_rec_num = sect.address.record;
    }
  return true;
}
}
