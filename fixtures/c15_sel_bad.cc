// R-C15-4 fixture (bad): a default's volume letter survives the assignment of a drive without one.
#include <optional>
namespace DFS {
class VolumeSelector {
public:
  VolumeSelector& operator=(const VolumeSelector&);
private:
  unsigned surface_;
  std::optional<char> subvolume_;
};
VolumeSelector& VolumeSelector::operator=(const VolumeSelector& v)
{
  surface_ = v.surface_;
  if (v.subvolume_)
    subvolume_ = *v.subvolume_;
  return *this;
}
}
