// R-C11-5 fixture (bad)
#include <unistd.h>
bool put(int fd, const char* p, size_t n) { if (write(fd, p, n) < 0) return false; return true; }
