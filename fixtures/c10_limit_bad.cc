// R-C10-11 fixture (bad): a size limit of its own
#include <cstdio>
#include <stdexcept>
extern "C" int inflate(void*, int);
void unpack(void* strm, FILE* out, const unsigned char* buf)
{
  const unsigned long max_useful_bytes = 511UL * 800UL * 256UL;
  int zerr = 0;
  unsigned long total_written = 0;
  while (zerr != 1)
    {
      zerr = inflate(strm, 0);
      const size_t n = fwrite(buf, 1, 512, out);
      if (n != 512)
	throw std::runtime_error("write");
      total_written += n;
      if (total_written > max_useful_bytes)
	throw std::runtime_error("too large");
    }
}
