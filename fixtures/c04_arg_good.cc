#include <string>
long get_arg(const std::string& s) { size_t end; return std::stol(s, &end, 10); }
