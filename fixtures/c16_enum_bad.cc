// R-C16-7 (bad): stops at the first gap; R-C16-9 (bad): empty entries are attached and count as free
#include <map>
#include <optional>
#include <vector>
namespace DFS {
struct DriveConfig { int fmt; };
class StorageConfiguration {
public:
  bool is_drive_connected(int drive) const
  {
    auto it = drives_.find(drive);
    if (it == drives_.end() || !it->second)
      return false;
    return true;
  }
  std::vector<int> get_all_occupied_drive_numbers() const
  {
    std::vector<int> result;
    for (int n = 0; is_drive_connected(n); ++n)
      result.push_back(n);
    return result;
  }
private:
  std::map<int, std::optional<DriveConfig>> drives_;
};
}
void attach(std::vector<std::optional<DFS::DriveConfig>>& drives, bool formatted)
{
  if (!formatted)
    {
      drives.emplace_back(std::nullopt);
      return;
    }
  DFS::DriveConfig dc{1};
  drives.emplace_back(dc);
}
