// R-C07-10 fixtures: end access on a possibly empty container.
#include <string>
#include <vector>
#include <deque>

std::string with_slash(std::string dir)
{
  if (dir.back() != '/')		// BAD: dir may be empty
    dir.push_back('/');
  return dir;
}

int next_start(const std::vector<std::vector<int>>& cats, unsigned c)
{
  if (c == cats.size() - 1)
    return 0;
  return cats[c + 1].back();		// BAD: the next catalogue may be empty
}

class Frags
{
public:
  explicit Frags(unsigned n)
  {
    for (unsigned i = 0; i < n; ++i)	// n may be 0: no invariant
      f_.push_back(static_cast<int>(i));
  }
  int primary() const { return f_.front(); }
private:
  std::vector<int> f_;
};

int use(unsigned n)
{
  Frags f(n);
  return f.primary();
}
