// R-C07-16 fixture (good)
#include <cstdlib>
#include <cstring>
#include <exception>
class FixedError : public std::exception {
public:
  explicit FixedError(const char *msg) : msg_(strdup(msg)) {}
  ~FixedError() { free(msg_); }
  const char *what() const noexcept { return msg_; }
private:
  char *msg_;
};
void check(int z) { if (z) throw FixedError("corrupted"); }
