// R-C07-13 fixture: the by-product member is read in the pass that made the call
#include <vector>
struct Geometry { int cylinders = 0, heads = 0, sectors = 0; };
struct Sector { std::vector<unsigned char> data; };
class Image {
 public:
  explicit Image(unsigned sides);
 private:
  std::vector<Sector> read_all_sectors(unsigned side);
  Geometry geom_;
  std::vector<std::pair<Geometry, std::vector<Sector>>> acc_;
};
std::vector<Sector> Image::read_all_sectors(unsigned side)
{
  std::vector<Sector> result(side == 0 ? 10u : 0u);
  geom_ = Geometry{1, 1, static_cast<int>(result.size())};
  return result;
}
Image::Image(unsigned sides)
{
  for (unsigned side = 0; side < sides; ++side)
    {
      std::vector<Sector> sectors = read_all_sectors(side);
      Geometry geom = geom_;
      acc_.emplace_back(geom, sectors);
    }
}
