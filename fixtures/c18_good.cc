#include <iostream>
#include <sstream>
#include <string>
#include <vector>
#include <cstdlib>
namespace DFS { bool verbose = false; }
static void eliminated(const std::string& why) {
  if (!DFS::verbose) return;
  std::cerr << "eliminated because " << why << "\n";
}
static int count(const std::vector<int>& v, bool verbose) {
  int n = 0;
  for (int x : v) {
    if (x < 0) {
      if (verbose) { std::ostringstream ss; ss << "negative " << x; std::cerr << ss.str() << "\n"; }
      continue;
    }
    ++n;
  }
  return n;
}
int lib_identify(const std::vector<int>& v) { eliminated("x"); return count(v, DFS::verbose); }
int cat_columns() { const char* c = std::getenv("COLUMNS"); return c ? std::atoi(c) : 80; }
#include <stdexcept>
#include <string>
int cat_columns_throwing()
{
  const char* c = std::getenv("COLUMNS");
  if (!c) return 80;
  try { return std::stoi(c); } catch (std::logic_error&) { return 80; }
}
