// R-C07-16 fixture (bad): a named local is thrown, i.e. copied
#include <cstdlib>
#include <cstring>
#include <exception>
class FixedError : public std::exception {
public:
  explicit FixedError(const char *msg) : msg_(strdup(msg)) {}
  ~FixedError() { free(msg_); }
  const char *what() const noexcept { return msg_; }
private:
  char *msg_;
};
void check(int z) { if (z) { FixedError corrupted("corrupted"); throw corrupted; } }
