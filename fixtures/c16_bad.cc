#include <map>
#include <vector>
#include <optional>
#include <memory>
#include <functional>
namespace DFS {
struct SurfaceSelector { unsigned d_; explicit SurfaceSelector(unsigned d) : d_(d) {} bool operator<(const SurfaceSelector& o) const { return d_ < o.d_; }
  SurfaceSelector next() const { return SurfaceSelector(d_ + 1); } SurfaceSelector opposite_surface() const { return SurfaceSelector(d_ ^ 2u); } };
typedef SurfaceSelector drive_number;
struct DriveConfig {};
class StorageConfiguration {
 public:
  bool is_drive_connected(drive_number n) const { return drives_.find(n) != drives_.end(); }
  void connect_internal(const SurfaceSelector& n, const std::optional<DriveConfig>& cfg) { drives_.emplace(n, cfg); caches_[n] = 0; }
  bool connect_drives(const std::vector<std::optional<DriveConfig>>& drives) {
    const drive_number limit(1000);
    drive_number n(0);
    while (n < limit && is_drive_connected(n)) n = n.next();
    for (auto d : drives) { connect_internal(n, d); n = n.next(); }     // seeded: later slots not tested
    return n < limit;
  }
 private:
  std::map<drive_number, std::optional<DriveConfig>> drives_;
  std::map<drive_number, int*> caches_;
};
}
