/* R-C08-8 fixture (bad): a failed fopen falls through to fclose(NULL) */
#include <stdio.h>
#include <stdbool.h>
bool dump_to(FILE *f);
bool dump(const char *file_name)
{
  bool ok = true;
  FILE *f = fopen(file_name, "w");
  if (NULL == f)
    {
      perror(file_name);
      ok = false;
    }
  ok = ok && dump_to(f);
  if (EOF == fclose(f))
    ok = false;
  return ok;
}
