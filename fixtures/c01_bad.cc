#include <functional>
#include <optional>
#include <array>
#include <stdexcept>
namespace DFS {
typedef unsigned char byte; typedef unsigned int sector_count_type;
constexpr unsigned int SECTOR_BYTES = 256;
typedef std::array<byte, 256> SectorBuffer;
struct DataAccess { virtual std::optional<SectorBuffer> read_block(unsigned long lba) = 0; };
class CatalogEntry { public:
  sector_count_type start_sector() const; sector_count_type last_sector() const; unsigned long file_length() const;
  bool visit_file_body_piecewise(DataAccess& media, std::function<bool(const byte* begin, const byte* end)> visitor) const {
    const sector_count_type start = start_sector(), end = last_sector();
    unsigned long len = file_length();
    for (sector_count_type sec = start; sec <= end; ++sec) {
      auto buf = media.read_block(sec);
      if (!buf) throw std::runtime_error("unreadable");
      unsigned long visit_len = len > SECTOR_BYTES ? SECTOR_BYTES : len;
      if (!visitor(buf->begin(), buf->begin() + visit_len)) return false;
      // seeded: remaining length never decreased
    }
    return true;
  }
}; }

// R-C01-6: the table cursor is not advanced on the continue path
int count_volumes_bad(const unsigned char *table)
{
  int found = 0;
  unsigned offset = 8;
  for (int i = 0; i < 8; ++i)
    {
      const unsigned track = table[offset];
      if (track == 0)
	continue;			// BAD: offset stays, every later slot is skipped too
      ++found;
      offset += 2u;
    }
  return found;
}

// R-C01-7: the catalogue slot of a volume counted from the volumes present
#include <vector>
struct VolLoc { int cat; unsigned long s, e; char v; VolLoc(int c, unsigned long a, unsigned long b, char l) : cat(c), s(a), e(b), v(l) {} };
std::vector<VolLoc> find_volumes_bad(const unsigned char *table, unsigned spt)
{
  std::vector<VolLoc> locations_;
  static const char labels[] = "ABCDEFGH";
  char label;
  unsigned offset = 8;
  int catalog_sector = 0;
  for (int i = 0; (label = labels[i]) != '\0'; ++i)
    {
      const unsigned track = table[offset];
      offset += 2u;
      if (track == 0)
	continue;
      unsigned long start = track * spt;
      locations_.emplace_back(catalog_sector, start, start, label);	// BAD
      catalog_sector += 2;
    }
  return locations_;
}

// R-C01-8: extents derived before the list is sorted
#include <algorithm>
struct Loc8 { unsigned long s, n; bool operator<(const Loc8& o) const { return s < o.s; } unsigned long start_sector() const { return s; } void set_next_sector(unsigned long x) { n = x; } };
class OpusDiscCatalogue8 {
 public:
  OpusDiscCatalogue8(const unsigned long *starts, int count, unsigned long total);
  std::vector<Loc8> locations_;
};
OpusDiscCatalogue8::OpusDiscCatalogue8(const unsigned long *starts, int count, unsigned long total)
{
  for (int i = 0; i < count; ++i)
    locations_.push_back(Loc8{starts[i], 0});
  unsigned long next_sector = total;
  for (auto it = locations_.rbegin(); it != locations_.rend(); ++it)	// BAD: not sorted yet
    {
      it->set_next_sector(next_sector);
      next_sector = it->start_sector();
    }
  std::sort(locations_.begin(), locations_.end());
}
