/* R-C03-5 fixture: the loop-token counter looks at exactly the line */
#include <stddef.h>
#include <stdbool.h>
static int count(unsigned char needle, const char *haystack, size_t len)
{
  int n = 0;
  size_t i;
  const unsigned char *p = (const unsigned char*)haystack;
  for (i = 0; i < len; ++i)
    {
      if (p[i] == needle)
	++n;
    }
  return n;
}
bool decode_line(const char *data, unsigned char orig_len, int *indent)
{
  *indent += 2 * count(0xE3, data, orig_len);
  return true;
}
