#include <string>
#include <vector>
#include <optional>
#include <cstdio>
#include <cstring>
#include <stdexcept>
#include <zlib.h>
namespace DFS { namespace stringutil { bool ends_with(const std::string& s, const std::string& suffix); } }
namespace DFS { namespace internal {
std::vector<int> make_candidate_list(const std::string& file_name) {
  std::string name(file_name);
  if (DFS::stringutil::ends_with(name, ".gz")) { name.resize(name.size() - 3); }
  std::optional<bool> interleave; std::optional<int> enc;
  if (DFS::stringutil::ends_with(name, ".ssd") || DFS::stringutil::ends_with(name, ".sdd")) interleave = false;
  if (DFS::stringutil::ends_with(name, ".dsd") || DFS::stringutil::ends_with(name, ".ddd")) interleave = true;
  if (DFS::stringutil::ends_with(name, ".sdd") || DFS::stringutil::ends_with(file_name, ".ddd")) enc = 1;
  return std::vector<int>{interleave ? 1 : 0, enc ? 1 : 0};
} } }
namespace {
void check_zlib_error_code(int zerr) {
  switch (zerr) {
  case Z_OK: return;
  case Z_STREAM_END: throw std::runtime_error("end");
  case Z_DATA_ERROR: throw std::runtime_error("corrupt");
  case Z_BUF_ERROR: throw std::runtime_error("incomplete");
  default: return;
  }
}
void write_decompressed_data(const std::string& name, FILE* fout) {
  FILE* f = fopen(name.c_str(), "rb");
  if (!f) throw std::runtime_error("open");
  z_stream stream; memset(&stream, 0, sizeof(stream));
  int zerr = inflateInit2(&stream, 16 + MAX_WBITS);
  check_zlib_error_code(zerr);
  check_zlib_error_code(inflateValidate(&stream, 0));
  unsigned char in[512], out[1024];
  zerr = Z_OK;
  while (zerr != Z_STREAM_END) {
    auto got = stream.avail_in = (unsigned)fread(in, 1, sizeof in, f);
    stream.next_in = in;
    do {
      stream.next_out = out; stream.avail_out = sizeof out;
      zerr = inflate(&stream, Z_NO_FLUSH);
      fwrite(out, 1, sizeof out - stream.avail_out, fout);
      if (zerr == Z_BUF_ERROR && got) break;
      if (zerr != Z_STREAM_END) check_zlib_error_code(zerr);
    } while (stream.avail_out == 0);
  }
  check_zlib_error_code(inflateEnd(&stream));
  fclose(f);
}
}
void use(const std::string& n, FILE* o) { write_decompressed_data(n, o); }
