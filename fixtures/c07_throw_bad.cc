#include <exception>
#include <string>
struct Bad : public std::exception { const char* what() const noexcept override { return "bad"; } };
void f(int x) { if (x) throw new Bad(); }
void g(int x) { if (x) throw 3; }
