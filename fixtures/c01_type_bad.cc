// R-C01-11 fixture (bad): an LF after a CR is swallowed
#include <iostream>
#include <vector>
typedef unsigned char byte;
bool show(const byte* body_start, const byte* body_end, bool binary)
{
  if (binary)
    return std::cout.write(reinterpret_cast<const char*>(body_start), body_end - body_start).good();
  std::vector<byte> data;
  byte prev = 0;
  for (const byte* p = body_start; p != body_end; prev = *p++)
    {
      if (*p == '\n' && prev == '\r')
	continue;
      data.push_back(*p == '\r' ? byte('\n') : *p);
    }
  return std::cout.write(reinterpret_cast<const char*>(data.data()), data.size()).good();
}
