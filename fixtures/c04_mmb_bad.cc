// R-C04-7 fixture (bad): the scan stops at the first invalid entry; R-C17-5 (bad): limit from another geometry
#include <string>
struct Geometry { unsigned total_sectors() const; };
struct Access {};
struct FileView { FileView(Access&, const std::string&, const std::string&, const Geometry&, unsigned long skip, unsigned take, unsigned leave, unsigned total); };
void add_view(const FileView&);
unsigned char entry_status(unsigned sec, unsigned i);
void scan_mmb_table(Access& a, const Geometry& disc_image_geom, const Geometry& whole)
{
  const auto disc_image_sectors = disc_image_geom.total_sectors();
  bool end_of_table = false;
  for (unsigned sec = 0; sec < 32 && !end_of_table; ++sec)
    for (unsigned i = 0; i < 16 && !end_of_table; ++i)
      {
	bool present = false;
	switch (entry_status(sec, i)) { case 0x00: case 0x0F: present = true; break; case 0xFF: end_of_table = true; break; default: break; }
	if (present)
	  add_view(FileView(a, "n", "d", disc_image_geom, 32 + (sec * 16 + i) * disc_image_sectors, disc_image_sectors, 0, whole.total_sectors()));
      }
}
