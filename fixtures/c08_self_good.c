/* R-C08-11 fixture (good) */
#include <stdlib.h>
struct xmap { const char *base[4]; char ascii[4][2]; };
struct dec { int listo; struct xmap m; };
static void build(struct xmap *m) { for (int i = 0; i < 4; ++i) { m->ascii[i][0] = (char)i; m->ascii[i][1] = 0; m->base[i] = m->ascii[i]; } }
struct dec *make(int listo) { struct dec *r = malloc(sizeof(*r)); if (!r) return NULL; r->listo = listo; build(&r->m); return r; }
