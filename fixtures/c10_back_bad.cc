// R-C10-10 fixture (bad): negated as a 32-bit unsigned value, then widened
#include <cstdio>
struct zs { unsigned int avail_in; };
bool give_back(FILE* f, const zs& stream) { return 0 == fseek(f, static_cast<long>(-stream.avail_in), SEEK_CUR); }
