// R-C16-8 / R-C18-7 fixture (good)
#include <iostream>
#include <memory>
#include <string>
#include <vector>
namespace DFS { enum class DriveAllocation { FIRST, PHYSICAL };
struct Storage { void show_drive_configuration(std::ostream&) const; };
struct Image { bool connect_drives(Storage*, DriveAllocation, std::string&); }; }
int next_option(int, char**);
int main(int argc, char** argv)
{
  DFS::Storage storage;
  DFS::DriveAllocation how_to_allocate_drives(DFS::DriveAllocation::PHYSICAL);
  std::vector<std::unique_ptr<DFS::Image>> files;
  bool show_config = false;
  int opt;
  while ((opt = next_option(argc, argv)) != -1)
    {
      switch (opt)
	{
	case 'f':
	  {
	    auto file = std::make_unique<DFS::Image>();
	    std::string error;
	    if (!file->connect_drives(&storage, how_to_allocate_drives, error))
	      return 1;
	    files.push_back(std::move(file));
	  }
	  break;
	case '1': how_to_allocate_drives = DFS::DriveAllocation::FIRST; break;
	case 'p': how_to_allocate_drives = DFS::DriveAllocation::PHYSICAL; break;
	case 's': show_config = true; break;
	}
    }
  if (show_config)
    {
      storage.show_drive_configuration(std::cerr);
    }
  return 0;
}
