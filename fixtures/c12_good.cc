#include <fstream>
#include <string>
#include <algorithm>
#include <cstdio>
namespace DFS { struct CatalogEntry { std::string name() const; char directory() const; std::string full_name() const; }; }
static std::string host_file_name(const std::string& dfs_name) {
  std::string result(dfs_name);
  std::replace(result.begin(), result.end(), '/', '_');
  return result;
}
bool allowed_writer(const DFS::CatalogEntry& e, const std::string& dest_dir) {
  std::string base = std::string(1, e.directory()) + "." + e.name();
  const std::string body = dest_dir + host_file_name(base);
  std::ofstream out(body, std::ofstream::out);
  out << "x";
  out.close();
  return out.good();
}
int reader(const std::string& name) { std::ifstream in(name, std::ifstream::binary); return in.get(); }
