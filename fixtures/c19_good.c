#include <assert.h>
#include <string.h>
#include <stdbool.h>
enum Dialect { D0, D1 };
bool set_dialect(const char* name, enum Dialect* d) { if (0 == strcmp(name, "x")) { *d = D1; return true; } return false; }
static bool known(const char* name) { return 0 == strcmp(name, "x"); }
int f(const char* n) { enum Dialect dialect; const bool ok = set_dialect(n, &dialect); assert(ok); assert(known(n) && strlen(n) < 9); (void)ok; return (int)dialect; }
