// R-C11-2 fixture: a helper that resets the state of whatever ostream it is given
#include <iostream>
class flag_saver {
 public:
  explicit flag_saver(std::ostream& os) : os_(os), saved_(os.flags()), state_(os.rdstate()) {}
  ~flag_saver() { os_.clear(state_); os_.flags(saved_); }	// BAD: clears a failure that happened in between
 private:
  std::ostream& os_; std::ostream::fmtflags saved_; std::ostream::iostate state_;
};
bool show(int v) { flag_saver keep(std::cout); std::cout << std::hex << v << "\n"; return true; }

// R-C11-2: a private stream on the caller's buffer; a stream buffer inserted wholesale
#include <sstream>
#include <fstream>
bool dump(std::ostream& os, int v) { std::ostream out(os.rdbuf()); out << v << "\n"; return true; }	// BAD
bool save(std::ofstream& outfile, std::stringbuf& body) { outfile << &body; outfile.close(); return outfile.good(); }	// BAD
