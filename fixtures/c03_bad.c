#include <stdio.h>
#include <stdbool.h>
static bool stdout_write_error(void) { perror("stdout"); return false; }
static bool print_target_line_number(unsigned char b1, unsigned char b2, unsigned char b3) {
  const unsigned char mask = 0xC0;
  const unsigned char hi_mask = 0x40;
  unsigned char lo = b2 ^ ((unsigned char)(b1 << 2) & mask);
  unsigned char hi = b3 ^ ((unsigned char)(b1 << 4) & hi_mask);      /* seeded: bit 15 lost */
  unsigned int n = (hi*256u) + lo;
  if (fprintf(stdout, "%u", n) < 0) return stdout_write_error();
  return true;
}
static bool premature_eof(FILE* f) { if (ftell(f) >= 0) fprintf(stderr, "premature end-of-file at position %ld\n", ftell(f)); return false; }   /* seeded: position decides whether to diagnose */
bool decode(FILE* f) { int ch = getc(f); if (ch == EOF) return premature_eof(f); return print_target_line_number(1, 2, 3); }
int main(int argc, char** argv) { FILE* f; if (argc < 2) f = stdin; else f = fopen(argv[1], "rb"); return decode(f) ? 0 : 1; }
