// R-C11-5 fixture (good)
#include <unistd.h>
bool put(int fd, const char* p, size_t n) { return write(fd, p, n) == static_cast<ssize_t>(n); }
