/* R-C03-7 fixture (bad): the terminator is searched for, so a 0x0D inside a string cuts the line. */
#include <stdio.h>
#include <stdbool.h>
#include <string.h>
static bool decode_line(unsigned char hi, unsigned char lo, unsigned char len, const char* data)
{ return fwrite(data, 1, len, stdout) == len && hi + lo >= 0; }
bool decode_file(FILE* f)
{
  static char buf[1024];
  for (;;)
    {
      int ch; unsigned char len; size_t nread; const char *eol;
      if ((ch = getc(f)) == EOF) return true;
      len = (unsigned char)ch;
      nread = fread(buf, 1, len, f);
      if (nread < len) return false;
      eol = memchr(buf, 0x0D, len);
      if ((len > 0) && eol == NULL) return false;
      if (len)
	{
	  len = (unsigned char)(eol - buf);
	  if (!decode_line(0, 0, len, buf)) return false;
	}
    }
}
