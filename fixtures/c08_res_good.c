/* R-C08-8 / R-C08-4 fixtures: per-file decoder, bounded padding */
#include <stdio.h>
#include <string.h>
#include <stdbool.h>
struct decoder;
struct decoder *new_decoder(unsigned dialect, unsigned listo);
void destroy_decoder(struct decoder *);
bool decode_file(struct decoder *d, const char *name, FILE *f);
int run_all(int argc, char **argv)
{
  int i, status = 0;
  for (i = 1; i < argc; ++i)
    {
      FILE *f = fopen(argv[i], "rb");
      if (!f) { status = 1; continue; }
      struct decoder *dec = new_decoder(0, 7);
      if (0 == dec)
	return 1;
      if (!decode_file(dec, argv[i], f))
	status = 1;
      fclose(f);
      destroy_decoder(dec);
      dec = NULL;
    }
  return status;
}
bool pad_out(int *indent)
{
  char pad[510];
  if (*indent > 0 && *indent <= 510)
    {
      const size_t width = (size_t)*indent;
      memset(pad, ' ', width);
      if (fwrite(pad, 1, width, stdout) != width)
	return false;
    }
  return true;
}
