#include <vector>
#include <optional>
namespace DFS { typedef unsigned char byte;
class FileAccess { public: virtual ~FileAccess() {} virtual std::vector<byte> read(unsigned long offset, unsigned long len) = 0; }; }
int parse_header(DFS::FileAccess* f) {
  std::vector<DFS::byte> header_data = f->read(0, 19);
  const DFS::byte* d = header_data.data();
  return d[9] | (d[0x0F] << 8);
}
