// R-C02-3 fixture (good): the register update written bit-serially, with the
// polynomial XOR decided by (top bit != message bit).
namespace DFS
{
  class CRC16Base
  {
  public:
    void update(const unsigned char *start, const unsigned char *end);
    void update_bit(bool bitval);
  private:
    unsigned long crc_;
  };

  namespace
  {
    inline unsigned long shift_in(unsigned long crc, bool message_bit)
    {
      const bool top_bit = (crc >> 15) & 1uL;
      const unsigned long shifted = (crc << 1) & 0xFFFFuL;
      return (top_bit != message_bit) ? (shifted ^ 0x1021uL) : shifted;
    }
  }

  void CRC16Base::update(const unsigned char *start, const unsigned char *end)
  {
    for (const unsigned char *p = start; p < end; ++p)
      {
	for (unsigned int bit = 0x80u; bit != 0u; bit >>= 1)
	  update_bit((*p & bit) != 0u);
      }
  }

  void CRC16Base::update_bit(bool bitval)
  {
    crc_ = shift_in(crc_, bitval);
  }
}
