#include <string>
#include <vector>
#include <cctype>
namespace {
inline char up(char ch) { return static_cast<char>(toupper(static_cast<unsigned char>(ch))); }
inline char down(char ch) { return static_cast<char>(tolower(static_cast<unsigned char>(ch))); }
bool convert_wildcard_into_extended_regex(const std::string& full_wildcard, std::string* ere) {
  std::vector<char> parts = {'^'};
  for (auto w : full_wildcard) {
    switch (w) {
    case ':': parts.push_back(':'); break;
    case '#': parts.push_back('['); parts.push_back('^'); parts.push_back('.'); parts.push_back(']'); break;
    case '*': parts.push_back('['); parts.push_back('^'); parts.push_back('.'); parts.push_back(']'); parts.push_back('*'); break;
    case '^': parts.push_back('\\'); parts.push_back('^'); break;
    case '.':
    default:
      if (up(w) != down(w)) { parts.push_back('['); parts.push_back(up(w)); parts.push_back(down(w)); parts.push_back(']'); }
      else { parts.push_back('['); parts.push_back(w); parts.push_back(']'); }
      break;
    }
  }
  parts.push_back('$');
  ere->assign(parts.cbegin(), parts.cend());
  return true;
}
}
bool use(const std::string& s, std::string* e) { return convert_wildcard_into_extended_regex(s, e); }
