// R-C12-5 fixture (good): the bounded fill is checked; a name that does not
// fit is refused instead of being cut short.
#include <stdio.h>
#include <fstream>
#include <string>

static std::string make_name(const std::string& dest_dir, unsigned first_sector)
{
  char buf[256];
  const int n = snprintf(buf, sizeof(buf), "%sunused_%03X.bin", dest_dir.c_str(), first_sector);
  if (n < 0 || static_cast<size_t>(n) >= sizeof(buf))
    return std::string();
  return std::string(buf);
}

bool write_span(const std::string& dest_dir, unsigned first)
{
  const std::string file_name = make_name(dest_dir, first);
  if (file_name.empty())
    return false;
  std::ofstream outfile(file_name, std::ofstream::out);
  outfile << "x";
  return outfile.good();
}
