#include "c17_common.h"
namespace DFS {
class Access : public DataAccess {
 public:
  Access(unsigned long o, unsigned long n, DataAccess& u) : origin_(o), len_(n), underlying_(u) {}
  std::optional<SectorBuffer> read_block(unsigned long lba) override {
    if (!(lba < len_))
      return std::nullopt;
    return underlying_.read_block(origin_ + lba);
  }
 private:
  unsigned long origin_, len_;
  DataAccess& underlying_;
};
class Vec : public DataAccess {
 public:
  std::optional<SectorBuffer> read_block(unsigned long lba) override {
    if (v_.size() <= lba) return std::nullopt;
    return v_[lba];
  }
  std::vector<SectorBuffer> v_;
};
class Pass : public DataAccess {
 public:
  Pass(DataAccess& u) : u_(u) {}
  std::optional<SectorBuffer> read_block(unsigned long lba) override { return u_.read_block(lba); }
  DataAccess& u_;
};
}
