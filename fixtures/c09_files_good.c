#include <stdio.h>
#include <stdbool.h>

/* R-C09-7: every file is decoded */
bool decode_file(void *dec, const char *name, FILE *f);
int all_files(int argc, char **argv, void *dec)
{
  int exitval = 0, i;
  for (i = 1; i < argc; ++i)
    {
      FILE *f = fopen(argv[i], "rb");
      if (!f) { exitval = 1; continue; }
      if (!decode_file(dec, argv[i], f))
	{
	  if (exitval < 1)
	    exitval = 1;
	}
      fclose(f);
    }
  return exitval;
}
