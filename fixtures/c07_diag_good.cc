#include <iostream>
#include <string>
#include <vector>
#include <optional>
namespace DFS {
struct StorageConfiguration; struct DFSContext;
class CommandInterface { public: virtual ~CommandInterface() {} virtual bool invoke(const StorageConfiguration&, const DFSContext&, const std::vector<std::string>& args) = 0; };
}
static std::optional<int> mount(int d, std::string& error) { if (d > 3) { error = "no such drive"; return std::nullopt; } return d; }
static bool show(int d, std::string& error) {
  auto m = mount(d, error);
  if (!m) { std::cerr << "failed to select drive " << d << ": " << error << "\n"; return false; }
  std::cout << *m << "\n";
  return std::cout.good();
}
class Cmd : public DFS::CommandInterface { public:
  bool invoke(const DFS::StorageConfiguration&, const DFS::DFSContext&, const std::vector<std::string>& args) override {
    std::string error; bool ok = true;
    for (size_t i = 1; i < args.size(); ++i) { if (!show((int)args[i].size(), error)) ok = false; }
    return ok;
  }
};
static int exit_status_for(bool ok) { std::cout.flush(); if (!std::cout) { std::cerr << "error: failed to write to standard output\n"; return 1; } return ok ? 0 : 1; }
struct Geom { int sectors; int cylinders; };
struct Adapter { std::vector<int> sectors_; Geom geom_;
  int read_block(unsigned long lba) { if (lba >= sectors_.size()) return -1; return (int)(lba / geom_.sectors) + (int)(lba % geom_.sectors); } };
int main(int argc, char** argv) {
  if (argc < 2) { std::cerr << "Please specify a command\n"; return 1; }
  Cmd c; std::vector<std::string> a(argv, argv + argc); Adapter ad; ad.read_block(1);
  return exit_status_for(c.invoke(*(DFS::StorageConfiguration*)0, *(DFS::DFSContext*)0, a));
}
