// R-C01-11 fixture (good)
#include <iostream>
#include <vector>
typedef unsigned char byte;
bool show(const byte* body_start, const byte* body_end, bool binary)
{
  if (binary)
    return std::cout.write(reinterpret_cast<const char*>(body_start), body_end - body_start).good();
  std::vector<byte> data(body_start, body_end);
  for (byte& ch : data)
    if (ch == '\r')
      ch = '\n';
  return std::cout.write(reinterpret_cast<const char*>(data.data()), data.size()).good();
}
