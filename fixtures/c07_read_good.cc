#include <vector>
#include <optional>
#include <algorithm>
namespace DFS { typedef unsigned char byte;
class FileAccess { public: virtual ~FileAccess() {} virtual std::vector<byte> read(unsigned long offset, unsigned long len) = 0; }; }
int parse_header(DFS::FileAccess* f) {
  std::vector<DFS::byte> header_data = f->read(0, 19);
  if (header_data.size() < 19) return -1;
  const DFS::byte* d = header_data.data();
  return d[9] | (d[0x0F] << 8);
}
int lut(DFS::FileAccess* f, unsigned tracks) {
  std::vector<DFS::byte> buf = f->read(512, tracks * 4u);
  if (buf.size() != tracks * 4u) throw 1;
  return buf.data()[0];
}
int walk(DFS::FileAccess* f, unsigned long n) {
  std::vector<DFS::byte> raw = f->read(0, n);
  auto got = raw.size();
  unsigned long off = 0; int s = 0;
  while (off < got) { const auto end = std::min(off + 256, got); s += *(raw.data() + off) + (raw.data() + end)[-1]; off += 512; }
  return s;
}
