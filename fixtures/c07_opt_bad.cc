#include <optional>
#include <cassert>
std::optional<int> get(int);
int use_unchecked(int k) {
  std::optional<int> spt;
  for (int i = 0; i < k; ++i) { if (!spt) spt = i; }
  assert(spt.has_value());
  return *spt;
}
