// R-C06-2 fixture: decisions on part of the CRC register.
#include <cstdint>
#include <vector>
namespace DFS {
class CRC16Base {
 public:
  explicit CRC16Base(uint16_t init) : crc_(init) {}
  void update(const uint8_t* s, const uint8_t* e) { for (; s < e; ++s) crc_ = ((crc_ << 1) ^ *s) & 0xFFFF; }
  unsigned long get() const { return crc_; }
 private:
  unsigned long crc_;
};
class CCITT_CRC16 : public CRC16Base { public: CCITT_CRC16() : CRC16Base(0xFFFF) {} };
}
bool check_block(const std::vector<uint8_t>& data)
{
  DFS::CCITT_CRC16 crc;
  crc.update(data.data(), data.data() + data.size());
  if (crc.get() & 0xFFu)		// BAD: only the low byte is tested
    return false;
  return true;
}
static unsigned char low_crc(const std::vector<uint8_t>& data)
{
  DFS::CCITT_CRC16 crc;
  crc.update(data.data(), data.data() + data.size());
  return static_cast<unsigned char>(crc.get());	// BAD: narrowed
}
bool check_id(const std::vector<uint8_t>& id)
{
  const auto c = low_crc(id);
  if (c)
    return false;
  return true;
}
