// R-C15-5 fixture (good)
#include <optional>
#include <vector>
struct Frag { std::optional<int> find(int) const; };
std::optional<int> find_in(const std::vector<Frag>& fragments, int name)
{
  std::optional<int> result;
  for (const auto& frag : fragments)
    {
      result = frag.find(name);
      if (result)
	break;
    }
  return result;
}
