// R-C12-3 fixture: output names that cannot be an input image, or are tested first
#include <fstream>
#include <string>
namespace DFS { struct CatalogEntry { std::string name() const; char directory() const; }; }
#include <filesystem>
bool is_image(const std::string& ext) { return ext == "ssd" || ext == "gz"; }
static bool is_input_image(const std::string& path, const std::string& image)
{
  std::error_code ec;
  return std::filesystem::equivalent(path, image, ec);
}
bool write_sidecar(const std::string& dest_dir, const std::string& safe_name)
{
  const std::string inf = dest_dir + safe_name + ".inf";	// the loader rejects .inf
  std::ofstream out(inf, std::ofstream::out);
  out << "x";
  out.close();
  return out.good();
}
bool write_body(const std::string& dest_dir, const DFS::CatalogEntry& e, const std::string& image)
{
  const std::string safe_name = e.name();
  const std::string body = dest_dir + safe_name;
  if (is_input_image(body, image))
    return false;
  std::ofstream out(body, std::ofstream::out);
  out << "x";
  out.close();
  return out.good();
}

// R-C12-4: the destination always ends in a slash
#include <vector>
std::string span_name(const std::string& dir, unsigned n) { return dir + "unused_" + std::to_string(n) + ".bin"; }
bool extract_to(const std::vector<std::string>& args)
{
  std::string dest_dir(args[1]);
  if (dest_dir.empty())
    return false;
  if (dest_dir.back() != '/')
    dest_dir.push_back('/');
  return !span_name(dest_dir, 2).empty();
}
