// R-C12-3 fixture: output names that cannot be an input image, or are tested first
#include <fstream>
#include <string>
#include <filesystem>
bool is_image(const std::string& ext) { return ext == "ssd" || ext == "gz"; }
static bool is_input_image(const std::string& path, const std::string& image)
{
  std::error_code ec;
  return std::filesystem::equivalent(path, image, ec);
}
bool write_sidecar(const std::string& dest_dir, const std::string& safe_name)
{
  const std::string inf = dest_dir + safe_name + ".inf";	// the loader rejects .inf
  std::ofstream out(inf, std::ofstream::out);
  out << "x";
  out.close();
  return out.good();
}
bool write_body(const std::string& dest_dir, const std::string& safe_name, const std::string& image)
{
  const std::string body = dest_dir + safe_name;
  if (is_input_image(body, image))
    return false;
  std::ofstream out(body, std::ofstream::out);
  out << "x";
  out.close();
  return out.good();
}
