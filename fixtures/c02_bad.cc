#include <array>
namespace DFS {
typedef unsigned char byte;
typedef unsigned int sector_count_type;
class CatalogEntry {
 public:
  char directory() const { return 0x7F & raw_name_[0x07]; }
  bool is_locked() const { return (1 << 7) & raw_name_[0x07]; }
  unsigned short metadata_byte(unsigned offset) const { return raw_metadata_[offset]; }
  unsigned short metadata_word(unsigned offset) const { return static_cast<unsigned short>((raw_metadata_[offset+1] << 8) | raw_metadata_[offset]); }
  unsigned long load_address() const { unsigned long address = metadata_word(0); address |= ((metadata_byte(6) >> 2) & 3uL) << 16; return address; }
  unsigned long exec_address() const { return metadata_word(0x02) | ((metadata_byte(0x06) >> 6) & 3uL) << 16; }
  unsigned long file_length() const { return metadata_word(4) | ((metadata_byte(6) >> 2) & 3uL) << 16; }
  sector_count_type start_sector() const { return static_cast<sector_count_type>(metadata_byte(7) | ((metadata_byte(6) & 3) << 8)); }
 private:
  std::array<byte, 8> raw_name_;
  std::array<byte, 8> raw_metadata_;
};
unsigned long sign_extend(unsigned long address) { if (address & 0x20000) { return 0xFF0000 | address; } else { return address; } }
}

// R-C02-5: the sorter folds case before testing for the current directory
#include <cctype>
struct Ctx5 { char current_directory; };
struct Entry5 { char d; char directory() const { return d; } };
bool sorts_first_bad(const Ctx5& ctx, const Entry5& l, const Entry5& r)
{
  auto mapdir = [&ctx](char dir) -> char {
    dir = static_cast<char>(tolower(static_cast<unsigned char>(dir)));
    return dir == ctx.current_directory ? '\0' : dir;	// BAD: dir already folded
  };
  return mapdir(l.directory()) < mapdir(r.directory());
}
bool in_current(const Ctx5& ctx, const Entry5& e) { return e.directory() == ctx.current_directory; }
