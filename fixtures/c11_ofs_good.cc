#include <fstream>
#include <iostream>
#include <functional>
bool visit(std::function<bool(const char*, const char*)> v);
bool extract(const std::string& name) {
  std::ofstream outfile(name, std::ofstream::out);
  if (!outfile.good()) return false;
  auto ok = visit([&outfile](const char* b, const char* e) { outfile.write(b, e - b); return bool(outfile); });
  outfile.close();
  if (!ok) return false;
  if (!outfile) { std::cerr << name << ": write error\n"; return false; }
  return true;
}
bool inf(const std::string& name) {
  std::ofstream inf_file(name);
  if (!inf_file.good()) return false;
  inf_file << "x\n";
  inf_file.close();
  return inf_file.good();
}
