// R-C17-3 fixture: volumes created with (first, length)
#include <map>
#include <memory>
#include <optional>
#include <vector>
namespace DFS {
struct DataAccess {};
struct Geometry { unsigned long total_sectors() const { return 800; } };
enum class Format { DFS, OpusDDOS };
struct VolumeLocation { unsigned long s_, l_; char v_; unsigned catalog_location() const { return 0; } unsigned long start_sector() const { return s_; } unsigned long len() const { return l_; } char volume() const { return v_; } };
class Volume {
 public:
  class Access { public: Access(unsigned long origin, unsigned long len, DataAccess& u) : origin_(origin), len_(len), u_(u) {} unsigned long origin_, len_; DataAccess& u_; };
  Volume(Format format, unsigned catalog_location, unsigned long first_sector, unsigned long total_sectors, DataAccess& media);
 private:
  unsigned catalog_location_; unsigned long total_sectors_; Access volume_tracks_;
};
Volume::Volume(Format, unsigned catalog_location, unsigned long first_sector, unsigned long total_sectors, DataAccess& media)
  : catalog_location_(catalog_location), total_sectors_(total_sectors), volume_tracks_(first_sector, total_sectors, media) {}
namespace internal {
std::map<std::optional<char>, std::unique_ptr<Volume>>
init_volumes(DataAccess& media, Format fmt, const Geometry& geom, const std::vector<VolumeLocation>& locs)
{
  std::map<std::optional<char>, std::unique_ptr<Volume>> result;
  if (fmt == Format::OpusDDOS)
    {
      for (const auto& vol_loc : locs)
	{
	  const unsigned long first = vol_loc.start_sector();
	  auto vol = std::make_unique<Volume>(fmt, vol_loc.catalog_location(), first, vol_loc.len(), media);
	  result.insert(std::make_pair(vol_loc.volume(), std::move(vol)));
	}
    }
  else
    {
      auto vol = std::make_unique<Volume>(fmt, 0, 0, geom.total_sectors(), media);
      result.insert(std::make_pair(std::nullopt, std::move(vol)));
    }
  return result;
}
}
}
