#include <iostream>
#include <string>
static bool run(const std::string& s) { std::cout << s << "\n"; return true; }
static int exit_status_for(bool ok) {
  std::cout.flush();
  if (!std::cout) { std::cerr << "error: failed to write to standard output\n"; return 1; }
  return ok ? 0 : 1;
}
int main(int argc, char** argv) {
  if (argc < 2) return 1;
  return exit_status_for(run(argv[1]));
}
