// R-C01-9 fixture (good)
#include <optional>
struct Entry { unsigned file_length() const; unsigned start_sector() const; unsigned last_sector() const; };
struct Frag { Entry get_entry_at_offset(unsigned) const; unsigned last; unsigned total;
  bool valid() const {
    std::optional<unsigned> last_file_start;
    for (unsigned pos = 8; pos <= last; pos += 8) {
      auto entry = get_entry_at_offset(pos);
      if (entry.file_length() == 0)
        continue;
      if (last_file_start) {
        if (entry.last_sector() >= *last_file_start) return false;
      }
      last_file_start = entry.start_sector();
    }
    return true;
  }
};
