// R-C12-5 fixture (bad): the output name is formatted into a NAME_MAX-sized
// buffer; a long destination path is cut short and names another file.
#include <stdio.h>
#include <fstream>
#include <string>

static std::string make_name(const std::string& dest_dir, unsigned first_sector)
{
  char buf[256];
  snprintf(buf, sizeof(buf), "%sunused_%03X.bin", dest_dir.c_str(), first_sector);
  return std::string(buf);
}

bool write_span(const std::string& dest_dir, unsigned first)
{
  const std::string file_name = make_name(dest_dir, first);
  std::ofstream outfile(file_name, std::ofstream::out);
  outfile << "x";
  return outfile.good();
}
