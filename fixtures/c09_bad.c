#include <stdio.h>
#include <stdbool.h>
static int carry;                      /* seeded: mutable static carried across files */
static bool premature_eof(FILE* f) { fprintf(stderr, "premature end-of-file at %ld\n", ftell(f)); return false; }
static bool decode_line(unsigned char hi, unsigned char lo, unsigned char len, const char* data) { carry += len; return fwrite(data, 1, len, stdout) == len && hi + lo >= 0; }
bool decode_file(FILE* f) {
  static char buf[1024];
  bool empty = true;
  for (;;) {
    int ch; unsigned char hi, lo, len; size_t nread;
    if ((ch = getc(f)) == EOF) { if (empty) return true; else return premature_eof(f); }
    empty = false;
    len = (unsigned char)ch;
    ch = fgetc(f);
    hi = (unsigned char)ch;              /* seeded: used before the EOF test */
    if (hi == 0xFF) { if ((ch = getc(f)) == EOF) return true; }
    else if (ch == EOF) return premature_eof(f);
    lo = 0;
    nread = fread(buf, 1, len, f);
    if (nread < len) { if (ferror(f)) { perror("x"); return false; } }   /* seeded: no else */
    if (!decode_line(hi, lo, len, buf)) return false;
  }
}
int wrapped_main(int argc, char** argv) {
  int exitval = 0;
  for (int i = 1; i < argc; ++i) {
    FILE* f = fopen(argv[i], "rb");
    if (!f) { perror(argv[i]); if (exitval < 1) exitval = 1; continue; }
    bool ok = decode_file(f);
    exitval = ok ? 0 : 1;                /* seeded: not sticky */
    fclose(f);
  }
  return exitval;
}

/* R-C09-6: extension handler that expands the token although the line ended */
static bool premature_eol(unsigned char tok) { fprintf(stderr, "eol after 0x%02X\n", tok); return false; }
static bool handle_ext(unsigned char intro, const char **output,
		       const unsigned char **input, unsigned char *len)
{
  (void)intro;
  if (*len && **input == 0x98)
    {
      ++*input;
      --*len;
      *output = "QUIT";
    }
  else
    {
      *output = "LOAD";		/* BAD: also when *len == 0 */
    }
  return true;
}
bool use_ext(const unsigned char *p, unsigned char n)
{
  const char *o = 0;
  (void)premature_eol;
  return handle_ext(0xC8, &o, &p, &n) && o;
}

/* R-C09-1 width: a getc result kept in a char */
bool skip_header(FILE *f)
{
  char c;
  if ((c = getc(f)) == EOF)		/* BAD: 0xFF and EOF coincide */
    return premature_eof(f);
  return c == 0x0D;
}
