// R-C17-7 fixture (bad): a volume that starts where the next one starts keeps its initial end
#include <vector>
struct Loc { unsigned long start_sector() const; void set_next_sector(unsigned long); };
void trim(std::vector<Loc>& locations, unsigned long total)
{
  unsigned long next_sector = total;
  for (auto it = locations.rbegin(); it != locations.rend(); ++it)
    {
      if (it->start_sector() < next_sector)
	it->set_next_sector(next_sector);
      next_sector = it->start_sector();
    }
}
