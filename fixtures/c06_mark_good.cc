// R-C06-7 fixture (good)
#include <cstdint>
#include <cstddef>
#include <optional>
#include <utility>
#include <vector>
namespace DFS { struct CCITT_CRC16 { void update(const uint8_t*, const uint8_t*); unsigned long get() const; }; }
struct BitStream { std::optional<std::pair<size_t, int64_t>> scan_for(size_t, uint64_t, uint64_t) const; size_t size() const; };
bool copy_bytes(const BitStream&, size_t&, size_t, std::vector<uint8_t>*);
std::vector<std::vector<uint8_t>> decode(const BitStream& bits)
{
  std::vector<std::vector<uint8_t>> result;
  size_t thisbit = 0;
  const size_t bits_avail = bits.size();
  auto find_mark = [&thisbit, &bits, bits_avail]() -> std::optional<unsigned int>
    {
      while (thisbit < bits_avail)
	{
	  auto found = bits.scan_for(thisbit, 0xAAAAAAAAF56A, 0xFFFFFFFFFFFA);
	  if (!found)
	    break;
	  found->second &= 0xFFFF;
	  thisbit = found->first + 1;
	  if (found->second == 0xF56A || found->second == 0xF56F)
	    return found->second;
	}
      return std::nullopt;
    };
  while (thisbit < bits_avail)
    {
      std::optional<unsigned int> found = find_mark();
      if (!found)
	break;
      const bool discard_record = *found == 0xF56A;
      uint8_t data_mark[1] = { uint8_t(discard_record ? 0xF8 : 0xFB) };
      std::vector<uint8_t> data;
      if (!copy_bytes(bits, thisbit, 258, &data))
	continue;
      DFS::CCITT_CRC16 crc;
      crc.update(data_mark, data_mark + 1);
      crc.update(data.data(), data.data() + 258);
      if (crc.get() != 0 || discard_record)
	continue;
      result.push_back(data);
    }
  return result;
}
