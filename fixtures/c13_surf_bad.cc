// R-C13-7 fixture (bad): the first surface's variant is reused for the others
#include <optional>
#include <string>
#include <vector>
namespace DFS {
enum class Format { DFS, WDFS };
struct Device { bool is_formatted() const; int geometry() const; };
std::optional<Format> identify_file_system(Device& d, int geom, bool b, std::string& cause);
struct DriveConfig { DriveConfig(std::optional<Format> f, Device* p) : f_(f), p_(p) {} std::optional<Format> f_; Device* p_; };
std::vector<DriveConfig> connect(std::vector<Device>& views)
{
  std::vector<DriveConfig> drives;
  std::optional<Format> probed;
  for (auto& view : views)
    {
      std::optional<Format> fmt;
      if (view.is_formatted())
	{
	  if (!probed)
	    {
	      std::string cause;
	      probed = identify_file_system(view, view.geometry(), false, cause);
	    }
	  fmt = probed;
	}
      DriveConfig dc(fmt, &view);
      drives.push_back(dc);
    }
  return drives;
}
}
