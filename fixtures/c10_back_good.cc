// R-C10-10 fixture (good)
#include <cstdio>
struct zs { unsigned int avail_in; };
bool give_back(FILE* f, const zs& stream) { return 0 == fseek(f, -static_cast<long>(stream.avail_in), SEEK_CUR); }
