#include <stdio.h>
static int work(void) { putchar('x'); return 0; }
int main(void) {
  int exitval = work();
  if (0 != fflush(stdout)) { perror("stdout"); exitval = 1; }    /* seeded: no ferror test */
  return exitval;
}
