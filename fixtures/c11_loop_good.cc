// R-C11-4 fixture (good): a failed step leaves the loop
bool write_span(int from, int to);
bool write_all(int n)
{
  bool ok = true;
  for (int i = 0; i < n; ++i)
    {
      ok = write_span(i, i + 1);
      if (!ok)
	break;
    }
  return ok;
}
