/* R-C09-1(b) fixture (good): the nothing-consumed flag is cleared as soon as a byte was read. */
#include <stdio.h>
#include <stdbool.h>
static bool premature_eof(FILE* f) { fprintf(stderr, "premature end-of-file at %ld\n", ftell(f)); return false; }
static bool decode_line(unsigned char len, const char* data) { return fwrite(data, 1, len, stdout) == len; }
bool decode_file(FILE* f) {
  static char buf[1024];
  bool empty = true;
  for (;;) {
    int ch; unsigned char len; size_t nread;
    if ((ch = getc(f)) == EOF) { if (empty) return true; else return premature_eof(f); }
    empty = false;
    len = (unsigned char)ch;
    if (len == 0xFF) return true;
    nread = fread(buf, 1, len, f);
    if (nread < len) return premature_eof(f);
    if (len) { if (!decode_line(len, buf)) return false; }
  }
}
