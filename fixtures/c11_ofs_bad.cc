#include <fstream>
#include <iostream>
#include <functional>
bool visit(std::function<bool(const char*, const char*)> v);
bool extract(const std::string& name) {
  std::ofstream outfile(name, std::ofstream::out);
  if (!outfile.good()) return false;
  auto ok = visit([&outfile](const char* b, const char* e) { outfile.write(b, e - b); return bool(outfile); });
  outfile.close();
  if (!ok) return false;
  return true;                 // seeded: state after close() never examined
}
