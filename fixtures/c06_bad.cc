#include "c06_common.h"
namespace Track {
std::vector<Sector> decode_mfm_track(bool verbose) {
  std::vector<Sector> result;
  size_t thisbit = 0;
  enum class MfmDecodeState { LookingForSectorHeader, LookingForRecord };
  Sector sec; int sec_size;
  enum MfmDecodeState state = MfmDecodeState::LookingForSectorHeader;
  while (next_sync(thisbit)) {
    switch (state) {
    case MfmDecodeState::LookingForSectorHeader: {
        std::string error; std::vector<byte> header;
        if (copy_bytes(thisbit, 7, &header)) {
          bool crc_ok = check_crc_with_a1s(header, error);
          if (!crc_ok && verbose) { }
          if (decode_sector_address_and_size(header.data(), &sec.address, &sec_size, error)) {   // seeded: CRC result not required
            state = MfmDecodeState::LookingForRecord;
            continue;
          }
        }
      }
      state = MfmDecodeState::LookingForSectorHeader;
      continue;
    case MfmDecodeState::LookingForRecord: {
        std::string error; std::vector<byte> mark_and_data;
        if (copy_bytes(thisbit, sec_size + 3, &mark_and_data)) {
          if (!check_crc_with_a1s(mark_and_data, error) && verbose) { continue; }     // seeded: bad CRC only rejected when verbose
          sec.data.resize(sec_size);
          std::copy(mark_and_data.begin() + 1, mark_and_data.begin() + 1 + sec_size, sec.data.begin());
          result.push_back(sec);
        }
      }
      state = MfmDecodeState::LookingForSectorHeader;
      continue;
    }
  }
  return result;
}
}
namespace {
class HxcMfmFile { public:
class DataAccessAdapter : public DFS::AbstractDrive {
 public:
  std::optional<DFS::SectorBuffer> read_block(unsigned long lba) override {
    if (lba >= sectors_.size()) return std::nullopt;
    const Track::Sector& sect(sectors_[lba]);            // seeded: ordinal lookup
    DFS::SectorBuffer buf; std::copy(sect.data.begin(), sect.data.end(), buf.begin()); return buf;
  }
  std::vector<Track::Sector> sectors_;
}; };
}
