#include <stdio.h>
#include <stdbool.h>
static bool premature_eof(FILE* f) { fprintf(stderr, "premature end-of-file at %ld\n", ftell(f)); return false; }
static bool decode_line(unsigned char hi, unsigned char lo, unsigned char len, const char* data) { return fwrite(data, 1, len, stdout) == len && hi + lo >= 0; }
static bool expect_char(FILE* f, unsigned char want) { int ch; if ((ch = getc(f)) == EOF) return premature_eof(f); return (unsigned char)ch == want; }
bool decode_file(FILE* f) {
  static char buf[1024];
  bool empty = true;
  for (;;) {
    int ch; unsigned char hi, lo, len; size_t nread;
    if ((ch = getc(f)) == EOF) { if (empty) return true; else return premature_eof(f); }
    empty = false;
    len = (unsigned char)ch;
    if (len == 0) { if (!expect_char(f, 0xFF)) return false; if ((ch = fgetc(f)) != EOF) return true; return true; }
    if ((ch = fgetc(f)) == EOF) return premature_eof(f);
    lo = (unsigned char)ch;
    if ((ch = fgetc(f)) == EOF) return premature_eof(f);
    hi = (unsigned char)ch;
    nread = fread(buf, 1, len, f);
    if (nread < len) { if (ferror(f)) { perror("x"); return false; } else { return premature_eof(f); } }
    if (!decode_line(hi, lo, len, buf)) return false;
  }
}
int wrapped_main(int argc, char** argv) {
  int exitval = 0;
  for (int i = 1; i < argc; ++i) {
    FILE* f = fopen(argv[i], "rb");
    if (!f) { perror(argv[i]); if (exitval < 1) exitval = 1; continue; }
    if (!decode_file(f)) { if (exitval < 1) exitval = 1; }
    fclose(f);
  }
  return exitval;
}

/* R-C09-6: extension handler fails when the line ended */
static bool premature_eol(unsigned char tok) { fprintf(stderr, "eol after 0x%02X\n", tok); return false; }
static bool handle_ext(unsigned char intro, const char **output,
		       const unsigned char **input, unsigned char *len)
{
  if (*len == 0)
    return premature_eol(intro);
  if (**input == 0x98)
    {
      ++*input;
      --*len;
      *output = "QUIT";
    }
  else
    {
      *output = "LOAD";
    }
  return true;
}
bool use_ext(const unsigned char *p, unsigned char n)
{
  const char *o = 0;
  return handle_ext(0xC8, &o, &p, &n) && o;
}

/* R-C09-1 width: a getc result kept in an int */
bool skip_header(FILE *f)
{
  int c;
  if ((c = getc(f)) == EOF)
    return premature_eof(f);
  return c == 0x0D;
}
