#include <string>
#include <stdexcept>
#include <iostream>
#include <cstdlib>
static int parse(const char* s) { return std::stoi(s); }        // may throw invalid_argument
static int lookup(int k) { if (k > 3) throw std::out_of_range("k"); return k; }
enum class Fmt { A, B, C };
const char* name(Fmt f) { switch (f) { case Fmt::A: return "a"; case Fmt::B: return "b"; } abort(); }  // misses C
int main(int argc, char** argv) {
  int n = parse(argv[1]);                 // seeded: outside any try
  try { n += lookup(n); }
  catch (std::exception& e) { std::cerr << e.what() << "\n"; return 1; }
  if (n == 77) return 3;                  // seeded: status 3
  std::cout << name(Fmt::A);
  return n ? 0 : 1;
}
