// R-C11-4 fixture (bad): only the last span decides the result
bool write_span(int from, int to);
bool write_all(int n)
{
  bool ok = true;
  int count = 0;
  for (int i = 0; i < n; ++i)
    {
      ok = write_span(i, i + 1);
      if (ok)
	++count;
    }
  return ok;
}
