#include <stdio.h>
static int work(void) { putchar('x'); return 0; }
int main(void) {
  int exitval = work();
  if (0 != fflush(stdout) || ferror(stdout)) { perror("stdout"); exitval = 1; }
  if (0 != fflush(stderr)) { exitval = 1; }
  return exitval;
}
