// R-C16-4 / R-C16-5 fixtures: search from 0 past occupied numbers; range-checked conversion
#include <map>
#include <vector>
#include <optional>
#include <limits>
#include <stdexcept>
namespace DFS {
struct SurfaceSelector { unsigned d_; explicit SurfaceSelector(unsigned d) : d_(d) {} bool operator<(const SurfaceSelector& o) const { return d_ < o.d_; }
  SurfaceSelector next() const { return SurfaceSelector(d_ + 1); }
  static unsigned coerce(long ld); };
typedef SurfaceSelector drive_number;
struct DriveConfig {};
unsigned SurfaceSelector::coerce(long ld)
{
  if (ld < 0)
    throw std::out_of_range("too small");
  if (ld > std::numeric_limits<unsigned>::max())
    throw std::out_of_range("too large");
  return static_cast<unsigned>(ld);
}
class StorageConfiguration {
 public:
  bool is_drive_connected(drive_number n) const { return drives_.find(n) != drives_.end(); }
  void connect_internal(const SurfaceSelector& n, const std::optional<DriveConfig>& cfg) { drives_.emplace(n, cfg); }
  bool connect_first(const std::vector<std::optional<DriveConfig>>& drives) {
    const drive_number limit(1000);
    drive_number n(0);
    for (auto d : drives) {
      for (; n < limit; n = n.next()) {
        if (!is_drive_connected(n)) { connect_internal(n, d); break; }
      }
    }
    return n < limit;
  }
 private:
  std::map<drive_number, std::optional<DriveConfig>> drives_;
};
}
