#include "c06_common.h"
namespace Track {
std::vector<Sector> decode_mfm_track(bool verbose) {
  std::vector<Sector> result;
  size_t thisbit = 0;
  enum class MfmDecodeState { LookingForSectorHeader, LookingForRecord };
  Sector sec; int sec_size;
  enum MfmDecodeState state = MfmDecodeState::LookingForSectorHeader;
  while (next_sync(thisbit)) {
    switch (state) {
    case MfmDecodeState::LookingForSectorHeader: {
        std::string error; std::vector<byte> header;
        if (copy_bytes(thisbit, 7, &header)) {
          if (check_crc_with_a1s(header, error)) {
            if (decode_sector_address_and_size(header.data(), &sec.address, &sec_size, error)) {
              state = MfmDecodeState::LookingForRecord;
              continue;
            }
          }
        }
      }
      state = MfmDecodeState::LookingForSectorHeader;
      continue;
    case MfmDecodeState::LookingForRecord: {
        std::string error; std::vector<byte> mark_and_data;
        if (copy_bytes(thisbit, sec_size + 3, &mark_and_data)) {
          if (check_crc_with_a1s(mark_and_data, error)) {
            if (mark_and_data[0] == 0xFB) {
              sec.data.resize(sec_size);
              std::copy(mark_and_data.begin() + 1, mark_and_data.begin() + 1 + sec_size, sec.data.begin());
              result.push_back(sec);
            }
            state = MfmDecodeState::LookingForSectorHeader;
            continue;
          }
        }
      }
      state = MfmDecodeState::LookingForSectorHeader;
      continue;
    }
  }
  return result;
}
}
namespace {
class HxcMfmFile { public:
class DataAccessAdapter : public DFS::AbstractDrive {
 public:
  std::optional<DFS::SectorBuffer> read_block(unsigned long lba) override {
    if (lba >= sectors_.size()) return std::nullopt;
    Track::SectorAddress want; want.cylinder = lba / 10; want.head = 0; want.record = lba % 10;
    for (const Track::Sector& sect : sectors_) {
      if (sect.address == want) { DFS::SectorBuffer buf; std::copy(sect.data.begin(), sect.data.end(), buf.begin()); return buf; }
    }
    return std::nullopt;
  }
  std::vector<Track::Sector> sectors_;
}; };
}
