/* R-C03-7 fixture (good): the decoder gets the bytes read, less the verified terminator. */
#include <stdio.h>
#include <stdbool.h>
static bool decode_line(unsigned char hi, unsigned char lo, unsigned char len, const char* data)
{ return fwrite(data, 1, len, stdout) == len && hi + lo >= 0; }
bool decode_file(FILE* f)
{
  static char buf[1024];
  for (;;)
    {
      int ch; unsigned char len; size_t nread;
      if ((ch = getc(f)) == EOF) return true;
      len = (unsigned char)ch;
      nread = fread(buf, 1, len, f);
      if (nread < len) return false;
      if ((len > 0) && buf[len-1] != 0x0D) return false;
      if (len)
	{
	  --len;
	  if (!decode_line(0, 0, len, buf)) return false;
	}
    }
}
