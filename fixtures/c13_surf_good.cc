// R-C13-7 fixture (good)
#include <optional>
#include <string>
#include <vector>
namespace DFS {
enum class Format { DFS, WDFS };
struct Device { bool is_formatted() const; int geometry() const; };
std::optional<Format> identify_file_system(Device& d, int geom, bool b, std::string& cause);
struct DriveConfig { DriveConfig(std::optional<Format> f, Device* p) : f_(f), p_(p) {} std::optional<Format> f_; Device* p_; };
std::vector<DriveConfig> connect(std::vector<Device>& views)
{
  std::vector<DriveConfig> drives;
  for (auto& view : views)
    {
      std::optional<Format> fmt;
      if (view.is_formatted())
	{
	  std::string cause;
	  fmt = identify_file_system(view, view.geometry(), false, cause);
	}
      DriveConfig dc(fmt, &view);
      drives.push_back(dc);
    }
  return drives;
}
}
