// R-C16-7 / R-C16-9 fixture (good)
#include <map>
#include <optional>
#include <vector>
namespace DFS {
struct DriveConfig { int fmt; };
class StorageConfiguration {
public:
  bool is_drive_connected(int drive) const
  {
    auto it = drives_.find(drive);
    if (it == drives_.end())
      return false;
    return true;
  }
  std::vector<int> get_all_occupied_drive_numbers() const
  {
    std::vector<int> result;
    for (const auto& number_and_device : drives_)
      result.push_back(number_and_device.first);
    return result;
  }
private:
  std::map<int, std::optional<DriveConfig>> drives_;
};
}
void attach(std::vector<std::optional<DFS::DriveConfig>>& drives, bool formatted)
{
  DFS::DriveConfig dc{formatted ? 1 : 0};
  drives.emplace_back(dc);
}
