#include <assert.h>
#include <string.h>
#include <stdbool.h>
enum Dialect { D0, D1 };
bool set_dialect(const char* name, enum Dialect* d) { if (0 == strcmp(name, "x")) { *d = D1; return true; } return false; }
int f(const char* n) { enum Dialect dialect; assert(set_dialect(n, &dialect)); return (int)dialect; }
