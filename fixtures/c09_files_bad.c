#include <stdio.h>
#include <stdbool.h>

/* R-C09-7: later files are skipped once one has failed */
bool decode_file(void *dec, const char *name, FILE *f);
int all_files(int argc, char **argv, void *dec)
{
  int exitval = 0, i;
  for (i = 1; i < argc; ++i)
    {
      FILE *f = fopen(argv[i], "rb");
      if (!f) { exitval = 1; continue; }
      if (exitval < 1 && !decode_file(dec, argv[i], f))	/* BAD */
	exitval = 1;
      fclose(f);
    }
  return exitval;
}
