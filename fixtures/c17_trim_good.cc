// R-C17-7 fixture (good)
#include <vector>
struct Loc { unsigned long start_sector() const; void set_next_sector(unsigned long); };
void trim(std::vector<Loc>& locations, unsigned long total)
{
  unsigned long next_sector = total;
  for (auto it = locations.rbegin(); it != locations.rend(); ++it)
    {
      it->set_next_sector(next_sector);
      next_sector = it->start_sector();
    }
}
