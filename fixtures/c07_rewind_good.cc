// R-C07-14 / R-C07-15 fixture (good)
#include <cstddef>
#include <cstdint>
#include <optional>
#include <utility>
#include <vector>
namespace Track {
class BitStream {
public:
  bool getbit(size_t bitpos) const { return rawbit(bitpos * stride_ + first_); }
  bool rawbit(size_t raw) const { return input_[raw / 8] & (1 << (raw % 8)); }
  std::optional<std::pair<size_t, int64_t>> scan_for(size_t start, uint64_t val, uint64_t mask) const
  {
    uint64_t shifter = 0;
    size_t i_cooked = start;
    for (size_t i = start * stride_ + first_; i < raw_bit_size_; ++i_cooked, i += stride_)
      {
	shifter = (shifter << 1u) | (rawbit(i) ? 1u : 0u);
	if ((mask & shifter) == (mask & val))
	  return std::make_pair(i_cooked, shifter);
      }
    return std::nullopt;
  }
  size_t size() const { return (raw_bit_size_ - first_) / stride_; }
private:
  const std::vector<unsigned char>& input_;
  const size_t raw_bit_size_, first_, stride_;
};
}
static bool read_byte(const Track::BitStream& bits, size_t start, int* out)
{
  if (start + 16 >= bits.size()) return false;
  int v = 0;
  for (int i = 0; i < 8; ++i) v = (v << 1) | (bits.getbit(start + 2 * i + 1) ? 1 : 0);
  *out = v;
  return true;
}
int decode(const Track::BitStream& bits)
{
  enum class State { Header, Record };
  size_t thisbit = 0, id_end = 0;
  const size_t bits_avail = bits.size();
  State state = State::Header;
  int n = 0;
  while (thisbit < bits_avail)
    {
      auto found = bits.scan_for(thisbit, 0xA1A1, 0xFFFF);
      if (!found)
	break;
      thisbit = found->first + 1;
      if (state == State::Header)
	{
	  int b;
	  if (!read_byte(bits, thisbit, &b)) continue;
	  id_end = thisbit;
	  state = State::Record;
	}
      else
	{
	  if (thisbit - id_end > 700)
	    {
	      thisbit = id_end;
	      state = State::Header;
	      continue;
	    }
	  ++n;
	  state = State::Header;
	}
    }
  return n;
}
