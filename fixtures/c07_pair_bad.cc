// R-C07-13 fixture: a by-product member read after the loop that sets it per call
#include <vector>
struct Geometry { int cylinders = 0, heads = 0, sectors = 0; };
struct Sector { std::vector<unsigned char> data; };
class Image {
 public:
  explicit Image(unsigned sides);
 private:
  std::vector<Sector> read_all_sectors(unsigned side);
  Geometry geom_;
  std::vector<std::pair<Geometry, std::vector<Sector>>> acc_;
};
std::vector<Sector> Image::read_all_sectors(unsigned side)
{
  std::vector<Sector> result(side == 0 ? 10u : 0u);
  geom_ = Geometry{1, 1, static_cast<int>(result.size())};
  return result;
}
Image::Image(unsigned sides)
{
  std::vector<std::vector<Sector>> all;
  for (unsigned side = 0; side < sides; ++side)
    all.push_back(read_all_sectors(side));
  Geometry geom = geom_;		// BAD: the geometry of the last side only
  for (unsigned side = 0; side < sides; ++side)
    acc_.emplace_back(geom, all[side]);
}
